#!/bin/bash
# usage: eval_summary.sh <agentdir> <N> <id> [tier] [extra props]
/verif/tools/eval_seeded.py "$@" 2>&1 | python3 -c "
import json,sys
t=sys.stdin.read()
try:
    j=json.loads(t[t.index('{'):])
except Exception as e:
    print('PARSE FAIL', t[-1500:]); sys.exit()
print(j['seeded_id'],'valid',j['valid_seeded_change'],'detected',j.get('detected'),'demo rc',j.get('demo_without_change_rc'),j.get('demo_with_change_rc'),'suite',j.get('suite_with_change'), j.get('error',''))
for c in j.get('checks',[]):
    print('  ',c['cmd'].split('./check')[1],'rc',c['rc'],c['wall_s'],'s replay',c.get('replay_rc'),'unchanged',c.get('replay_on_unchanged_tree_rc'))
    for v in c['violations'][:3]: print('     ',v[:230])
    for v in c['notes'][:2]: print('     ',v[:200])
"
