#!/usr/bin/env python3
"""Regenerates the table of section 12 of DESIGN.md from the evidence files of the last runs.
usage: asbuilt_table.py [thorough-log]   (the optional log holds the `OK property=.. tier=thorough ..` lines of a thorough run)"""
import json, os, re, sys
V = os.path.dirname(os.path.dirname(os.path.abspath(__file__)))
thorough = {}
if len(sys.argv) > 1 and os.path.exists(sys.argv[1]):
    for l in open(sys.argv[1]):
        m = re.match(r"OK property=(C\d+) tier=thorough runs=(\d+) ops=(\d+) states=(\d+) wall=([\d.]+)s", l)
        if m:
            thorough[m.group(1)] = (int(m.group(2)), int(m.group(3)), float(m.group(5)))


def human(n):
    return "%.2f M" % (n / 1e6) if n >= 1e6 else "%.0f k" % (n / 1e3) if n >= 1e4 else str(n)


rows = []
for pid in ["C02", "C11", "C14", "C15", "C03", "C08", "C16", "C17", "C18"]:
    p = os.path.join(V, "evidence", pid + ".json")
    if not os.path.exists(p):
        continue
    j = json.load(open(p))
    c = j["coverage"]
    legs = c.get("legs", [])
    builds = sorted(set(l["leg"].split("/")[2] for l in legs if l["leg"].count("/") >= 3 and not l["leg"].startswith("cross:")) | set(l["leg"].split("@")[-1] for l in legs if l["leg"].startswith("cross:")))
    parts = ["%d legs on builds %s" % (len(legs), ", ".join(builds))]
    if c.get("enumerated_completely"):
        parts.append("complete enumeration: " + ", ".join("%s %d combinations x 192" % (e["leg"].split("/", 2)[2], e["combinations"]) for e in c["enumerated_completely"]))
    hosts = c.get("interpreted_hosts") or c.get("big_endian_host")
    if hosts:
        def hn(x):
            m = re.match(r"simulated x86-64 CPU with (\w+)", x)
            return ("CPU generation " + m.group(1).lower()) if m else x.split(" (")[0]
        parts.append("interpreted hosts: " + "; ".join("%s (%s, %s ops)" % (hn(h["host"]), h["sections"], h.get("operations", "?")) for h in sorted(hosts, key=lambda h: h["host"])))
    if c.get("miri_thread_layer"):
        w = c["miri_thread_layer"]["workloads"][0]
        parts.append("Miri thread layer: %d interpreter runs over %d of %d workloads, %d on the x86 backend, %d distinct completion orders" % (
            w["interpreter_runs"], w.get("workloads_run", 0), w["workloads"], w.get("runs_on_the_x86_backend", 0), w["distinct_interleavings"]["count"]))
    if c.get("miri_exact_allocation_pass"):
        parts.append("Miri exact-allocation pass: " + " + ".join("%s backend, %d interpreters" % (m["backend"].split(" ")[0], m["miri_seeds"][1] - m["miri_seeds"][0]) for m in c["miri_exact_allocation_pass"]))
    if c.get("memcheck_pass"):
        parts.append("memcheck pass: %d runs" % c["memcheck_pass"][0].get("runs", 0))
    if c.get("huge_single_calls"):
        parts.append("huge single calls: " + ", ".join(h["call"].split(" pre=")[0] for h in c["huge_single_calls"]))
    if c.get("streamed_for_real"):
        parts.append("%d real streams" % len(c["streamed_for_real"]))
    th = thorough.get(pid)
    rows.append("| %s | %s runs, %s operations, %s distinct abstract states, %.0f s | %s | %s |" % (
        pid, human(c.get("evaluations", 0)), human(c.get("operations_executed", 0)), c.get("distinct_nontrivial", "?"), j["wall_s"],
        ("%s runs, %s operations, %.0f min" % (human(th[0]), human(th[1]), th[2] / 60)) if th else "see the thorough command", "; ".join(parts)))
out = ["| check | quick tier (last run, tier=%s) | thorough tier | what ran in the quick tier |" % "quick", "|---|---|---|---|"] + rows
s = open(os.path.join(V, "DESIGN.md")).read()
block = "<!-- ASBUILT-TABLE-BEGIN -->\n" + "\n".join(out) + "\n<!-- ASBUILT-TABLE-END -->"
if "<!-- ASBUILT-TABLE-BEGIN -->" in s:
    s = re.sub(r"<!-- ASBUILT-TABLE-BEGIN -->.*?<!-- ASBUILT-TABLE-END -->", lambda m: block, s, flags=re.S)
else:
    print("markers not found")
    sys.exit(1)
open(os.path.join(V, "DESIGN.md"), "w").write(s)
print(len(rows), "rows")
