#!/bin/bash
# usage: mk_agent_wt.sh <name>   -> /tmp/agent-<name>, a detached worktree of /repo HEAD with the lock file
set -e
wt=/tmp/agent-$1
git -C /repo worktree remove --force $wt 2>/dev/null || true
git -C /repo worktree add -q --detach $wt HEAD
cp /repo/Cargo.lock $wt/Cargo.lock
mkdir -p $wt/demo_template/src
cat > $wt/demo_template/Cargo.toml <<EOT
[package]
name = "demo"
version = "0.1.0"
edition = "2021"

[dependencies]
c2-chacha = { path = "../stream-ciphers/chacha" }
blake-hash = { path = "../hashes/blake" }
jh-x86_64 = { path = "../hashes/jh" }
groestl-aesni = { path = "../hashes/groestl" }
skein-hash = { path = "../hashes/skein" }
threefish-cipher = { path = "../block-ciphers/threefish" }
ppv-lite86 = { path = "../utils-simd/ppv-lite86" }
cipher = "0.3"
digest = "0.9"

[patch.crates-io]
c2-chacha = { path = "../stream-ciphers/chacha" }
crypto-simd = { path = "../utils-simd/crypto-simd" }
ppv-lite86 = { path = "../utils-simd/ppv-lite86" }
ppv-null = { path = "../utils-simd/ppv-null" }
threefish-cipher = { path = "../block-ciphers/threefish" }

[workspace]
EOT
echo 'fn main() { println!("replace me"); }' > $wt/demo_template/src/main.rs
cp /repo/Cargo.lock $wt/demo_template/Cargo.lock
mkdir -p $wt/demo_template/.cargo
printf '[net]\noffline = true\n[build]\nrustflags = ["--cfg", "zerocopy_derive_union_into_bytes"]\n' > $wt/demo_template/.cargo/config.toml
echo $wt
