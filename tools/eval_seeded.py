#!/usr/bin/env python3
"""Confirm a seeded breaking change and run the checks against it.
usage: eval_seeded.py <agent_dir> <N> <seeded_id> [tier] [extra props...]
 1. fresh scratch worktree of /repo HEAD; demo passes without the change
 2. change applied: existing suite passes, demo fails
 3. ./check <property> <tier> with VERIF_REPO=<worktree> (quick, then thorough if quick misses)
Writes /verif/seeded/<seeded_id>/{patch.diff,demo/,meta.json}. Removes the worktree and its build output."""
import sys, os, json, subprocess, shutil, hashlib, time

agent, n, sid = sys.argv[1], sys.argv[2], sys.argv[3]
tiers = [sys.argv[4]] if len(sys.argv) > 4 and sys.argv[4] in ("quick", "thorough") else ["quick", "thorough"]
FROM_SEEDED = agent == "--seeded"   # re-evaluate /verif/seeded/<sid> (patch.diff, demo/, meta.json)
if FROM_SEEDED:
    sdir = "/verif/seeded/%s" % sid
    old = json.load(open(sdir + "/meta.json"))
    meta = dict(property=old["breaks_property"], summary=old.get("summary"), needs_to_manifest=old.get("needs_to_manifest"), files_changed=old.get("files_changed"),
                demo_cmd=old.get("demo_cmd"), why_tests_still_pass=old.get("why_tests_still_pass"))
else:
    meta = json.load(open(os.path.join(agent, "meta_%s.json" % n)))
prop = meta["property"]
extra_props = [a for a in sys.argv[5:]]
wt = "/tmp/wt-eval-%s" % sid
def sh(cmd, cwd=None, env=None, timeout=3600):
    p = subprocess.run(cmd, shell=True, cwd=cwd, env=env, stdout=subprocess.PIPE, stderr=subprocess.STDOUT, text=True, timeout=timeout)
    return p.returncode, p.stdout
subprocess.call(["git", "-C", "/repo", "worktree", "remove", "--force", wt], stderr=subprocess.DEVNULL)
subprocess.check_call(["git", "-C", "/repo", "worktree", "add", "-q", "--detach", wt, "HEAD"])
res = dict(seeded_id=sid, property=prop, agent_meta=meta)
try:
    shutil.copy("/repo/Cargo.lock", wt + "/Cargo.lock")
    import re
    if FROM_SEEDED:
        demo_src = sdir + "/demo"
        patch_file = sdir + "/patch.diff"
    else:
        demo_src = os.path.join(agent, "demo_%s" % n)
        patch_file = os.path.join(agent, "mutation_%s.diff" % n)
    demo_dst = os.path.join(wt, "demo_%s" % n)
    shutil.copytree(demo_src, demo_dst, ignore=shutil.ignore_patterns("target"))
    if not os.path.exists(demo_dst + "/Cargo.lock"):
        shutil.copy("/repo/Cargo.lock", demo_dst + "/Cargo.lock")
    demo_cmd = re.sub(r"/tmp/agent-[A-Za-z0-9]+/demo_\d+", demo_dst, meta["demo_cmd"])
    # demos for the big-endian interpreter were given the agent's own Miri sysroot: any s390x Miri sysroot does
    demo_cmd = re.sub(r"MIRI_SYSROOT=/tmp/agent-[A-Za-z0-9]+/miri-sysroot", "MIRI_SYSROOT=/verif/target/miri-sysroot-s390x", demo_cmd)
    # any other foreign target: the sysroot this repository's checks built for it
    mt = re.search(r"--target (\w+)-", demo_cmd)
    if mt and os.path.isdir("/verif/target/miri-sysroot-" + mt.group(1)):
        demo_cmd = re.sub(r"MIRI_SYSROOT=\S+", "MIRI_SYSROOT=/verif/target/miri-sysroot-" + mt.group(1), demo_cmd)
    rc0, out0 = sh(demo_cmd)
    res["demo_without_change_rc"] = rc0
    rc, out = sh("git apply %s" % patch_file, cwd=wt)
    if rc != 0:
        res["error"] = "patch does not apply: " + out[-500:]
        raise SystemExit
    rc, out = sh("cargo test --workspace --no-fail-fast --offline 2>&1 | grep -E '^test result|FAILED|^error' ", cwd=wt)
    passed = sum(int(l.split("ok. ")[1].split(" passed")[0]) for l in out.splitlines() if l.startswith("test result: ok."))
    failed = [l for l in out.splitlines() if "FAILED" in l or l.startswith("error")]
    res["suite_with_change"] = dict(passed=passed, failed=failed)
    rc1, out1 = sh(demo_cmd)
    res["demo_with_change_rc"] = rc1
    res["demo_with_change_tail"] = out1[-400:]
    env = dict(os.environ, VERIF_REPO=wt)
    res["checks"] = []
    for p in [prop] + extra_props:
        for tier in tiers:
            t0 = time.time()
            rc, out = sh("./check %s %s" % (p, tier), cwd="/verif", env=env, timeout=7200)
            viol = [l for l in out.splitlines() if l.startswith("VIOLATION") or l.startswith("  invariant") or l.startswith("  detail")]
            notes = [l for l in out.splitlines() if l.startswith("NOTE") or l.startswith("HARNESS")]
            res["checks"].append(dict(cmd="VERIF_REPO=<scratch worktree with the change> ./check %s %s" % (p, tier), rc=rc, wall_s=round(time.time() - t0, 1), violations=viol[:9], notes=notes[:4]))
            if rc == 1:
                # confirm the replay file reproduces in a fresh process
                rp = [l.split("replay=")[1].strip() for l in out.splitlines() if l.startswith("VIOLATION") and "replay=" in l]
                if rp:
                    rc2, out2 = sh("./check %s --replay %s" % (p, rp[0]), cwd="/verif", env=env)
                    res["checks"][-1]["replay_rc"] = rc2
                    # and the same replay file on the unchanged tree must pass
                    rc3, out3 = sh("./check %s --replay %s" % (p, rp[0]), cwd="/verif")
                    res["checks"][-1]["replay_on_unchanged_tree_rc"] = rc3
                break
    res["detected"] = any(c["rc"] == 1 for c in res["checks"] if c["cmd"].split()[-2] == prop)
finally:
    tag = hashlib.sha1(wt.encode()).hexdigest()[:8]
    for d in os.listdir("/verif/target") if os.path.isdir("/verif/target") else []:
        if ("-" + tag) in d:
            shutil.rmtree(os.path.join("/verif/target", d), ignore_errors=True)
    for d in os.listdir("/verif/build") if os.path.isdir("/verif/build") else []:
        if ("-" + tag) in d:
            shutil.rmtree(os.path.join("/verif/build", d), ignore_errors=True)
    subprocess.call(["git", "-C", "/repo", "worktree", "remove", "--force", wt])
valid = res.get("demo_without_change_rc") == 0 and res.get("demo_with_change_rc", 0) != 0 and not res.get("suite_with_change", {}).get("failed") and "error" not in res
res["valid_seeded_change"] = bool(valid)
print(json.dumps(res, indent=1))
if valid:
    out = "/verif/seeded/%s" % sid
    os.makedirs(out, exist_ok=True)
    if not FROM_SEEDED:
        shutil.copy(os.path.join(agent, "mutation_%s.diff" % n), out + "/patch.diff")
        if os.path.exists(out + "/demo"):
            shutil.rmtree(out + "/demo")
        shutil.copytree(os.path.join(agent, "demo_%s" % n), out + "/demo", ignore=shutil.ignore_patterns("target", "Cargo.lock", "miri-sysroot"))
    json.dump(dict(breaks_property=prop, summary=meta.get("summary"), needs_to_manifest=meta.get("needs_to_manifest"), files_changed=meta.get("files_changed"),
                   demo_cmd=meta.get("demo_cmd"), why_tests_still_pass=meta.get("why_tests_still_pass"), origin="independent sub-agent given only the property text",
                   confirmed=dict(demo_without_change_rc=res["demo_without_change_rc"], demo_with_change_rc=res["demo_with_change_rc"], suite_with_change=res["suite_with_change"]),
                   checks_run=res["checks"], detected=res["detected"]), open(out + "/meta.json", "w"), indent=1)
