#!/usr/bin/env python3
"""Run only chosen workloads of the Miri thread layer (S7b) through the real pipeline (classification, sequential re-run,
minimisation, replay file): `VERIF_REPO=<tree> tools/miri_only.py <tier> <w>[,<w>...]`. A development aid for measuring one
seeded change against one workload without paying for the whole tier; not registered in MANIFEST.json."""
import sys, os, json
sys.path.insert(0, os.path.dirname(os.path.dirname(os.path.abspath(__file__))))
import checklib
tier, ws = sys.argv[1], set(int(x) for x in sys.argv[2].split(","))
orig = checklib.miri_jobs
checklib.miri_jobs = lambda t, sd: [j for j in orig(t, sd) if j[0] in ws]
results, violations, known, others = [], [], [], []
checklib.run_miri_layer("C18", tier, int(os.environ.get("VERIF_SEED", "1")), os.path.join(checklib.VERIF, "replays"), results, violations, known, others)
for f in violations:
    print("VIOLATION property=C18", f["violation"]["signature"], f["violation"]["detail"][:300].replace("\n", " "))
print("runs:", results[0].get("interpreter_runs") if results else None, "violations:", len(violations), "others:", len(others))
sys.exit(1 if violations else 0)
