#!/bin/bash
# usage: with_mutant.sh <name> <patch-file | revert:<commit>> -- <command...>
# Creates a scratch worktree of /repo under /tmp, applies the change, runs the command with VERIF_REPO
# pointing at it, then removes the worktree and the build output that belongs to it.
set -u
name=$1; change=$2; shift 3
wt=/tmp/wt-$name
git -C /repo worktree remove --force $wt 2>/dev/null
git -C /repo worktree add -q --detach $wt HEAD || exit 2
if [[ $change == revert:* ]]; then
  git -C $wt revert --no-commit ${change#revert:} || { echo "revert failed"; exit 2; }
else
  git -C $wt apply $change || { echo "patch failed"; git -C /repo worktree remove --force $wt; exit 2; }
fi
cp /repo/Cargo.lock $wt/Cargo.lock 2>/dev/null
VERIF_REPO=$wt "$@"
rc=$?
tag=$(python3 -c "import hashlib;print(hashlib.sha1(b'$wt').hexdigest()[:8])")
rm -rf /verif/target/*-$tag* /verif/build/*-$tag*
git -C /repo worktree remove --force $wt
exit $rc
