#!/usr/bin/env python3
"""Re-run the quick check of every stored seeded change (/verif/seeded/<id>) against the current machinery.
usage: reeval.py <slot> <id> [<id> ...]
One persistent scratch worktree per slot (/tmp/wt-reeval-<slot>) so that cargo only rebuilds what a change touches;
the change is applied, `./check <property> quick` runs with VERIF_REPO pointing at the worktree, the change is undone.
The confirmation steps of eval_seeded.py (suite passes, demonstration fails) are not repeated: they were done when the
change was stored. Updates `checks_run` / `detected` in the stored meta.json and prints one line per change.
The worktree and its build output are removed at the end."""
import sys, os, json, subprocess, hashlib, time, glob, shutil

slot = sys.argv[1]
ids = sys.argv[2:]
wt = "/tmp/wt-reeval-%s" % slot


def sh(cmd, cwd=None, env=None, timeout=7200):
    p = subprocess.run(cmd, shell=True, cwd=cwd, env=env, stdout=subprocess.PIPE, stderr=subprocess.STDOUT, text=True, timeout=timeout)
    return p.returncode, p.stdout


subprocess.call(["git", "-C", "/repo", "worktree", "remove", "--force", wt], stderr=subprocess.DEVNULL)
subprocess.check_call(["git", "-C", "/repo", "worktree", "add", "-q", "--detach", wt, "HEAD"])
shutil.copy("/repo/Cargo.lock", wt + "/Cargo.lock")
try:
    for sid in ids:
        sdir = "/verif/seeded/%s" % sid
        meta = json.load(open(sdir + "/meta.json"))
        prop = meta["breaks_property"]
        sh("git checkout -q -- . && git clean -fdq -e Cargo.lock", cwd=wt)
        rc, out = sh("git apply %s/patch.diff" % sdir, cwd=wt)
        if rc != 0:
            print("%s PATCH-DOES-NOT-APPLY %s" % (sid, out[-200:].replace("\n", " ")), flush=True)
            continue
        env = dict(os.environ, VERIF_REPO=wt)
        props = [prop] + [p for p in meta.get("also_check", [])]
        runs = []
        for p in props:
            t0 = time.time()
            rc, out = sh("./check %s quick" % p, cwd="/verif", env=env)
            viol = [l for l in out.splitlines() if l.startswith("VIOLATION") or l.startswith("  invariant")]
            notes = [l for l in out.splitlines() if l.startswith("NOTE") or l.startswith("HARNESS")]
            runs.append(dict(cmd="VERIF_REPO=<scratch worktree with the change> ./check %s quick" % p, rc=rc, wall_s=round(time.time() - t0, 1), violations=viol[:6], notes=notes[:3]))
            if rc == 1:
                break
        detected = any(r["rc"] == 1 for r in runs)
        meta["checks_run"] = runs
        meta["detected"] = detected
        meta["reevaluated_at_verif_commit"] = subprocess.run(["git", "-C", "/verif", "rev-parse", "--short", "HEAD"], stdout=subprocess.PIPE, text=True).stdout.strip()
        json.dump(meta, open(sdir + "/meta.json", "w"), indent=1)
        first = next((v for r in runs for v in r["violations"] if v.startswith("  invariant")), "")
        print("%s %s %s rc=%s %.0fs %s %s" % (sid, prop, "DETECTED" if detected else "MISSED", [r["rc"] for r in runs], sum(r["wall_s"] for r in runs), first.strip()[:150], " | ".join(n[:120] for r in runs for n in r["notes"][:1])), flush=True)
finally:
    tag = hashlib.sha1(wt.encode()).hexdigest()[:8]
    for d in glob.glob("/verif/target/*-%s*" % tag) + glob.glob("/verif/build/*-%s*" % tag):
        shutil.rmtree(d, ignore_errors=True)
    subprocess.call(["git", "-C", "/repo", "worktree", "remove", "--force", wt])
