#!/usr/bin/env python3
"""Regenerates the table of seeded changes in DESIGN.md (section 14) from seeded/*/meta.json."""
import json, glob, os, re
V = os.path.dirname(os.path.dirname(os.path.abspath(__file__)))
rows = []
for d in sorted(glob.glob(os.path.join(V, "seeded", "*"))):
    mp = os.path.join(d, "meta.json")
    if not os.path.exists(mp):
        continue
    m = json.load(open(mp))
    sid = os.path.basename(d)
    checks = m.get("checks_run", [])
    hit = [c for c in checks if c.get("rc") == 1]
    def short(c):
        inv = ""
        for v in c.get("violations", []):
            mm = re.search(r"invariant=(\w+) signature=(.*)", v)
            if mm:
                inv = "%s (%s)" % (mm.group(1), mm.group(2)[:70])
                break
        cmd = c["cmd"].split("./check ")[1]
        rep = ""
        if "replay_rc" in c:
            rep = ", replay reproduces: %s, passes on unchanged tree: %s" % ("yes" if c.get("replay_rc") == 1 else "NO", "yes" if c.get("replay_on_unchanged_tree_rc") == 0 else "NO")
        return "`%s` -> %s, %.0f s%s" % (cmd, inv, c.get("wall_s", 0), rep)
    caught = "; ".join(short(c) for c in hit) if hit else "**not caught** (" + ", ".join(c["cmd"].split("./check ")[1] for c in checks) + ")"
    if m.get("note"):
        caught += " - " + m["note"].replace("|", "/")[:300]
    rows.append("| %s | %s | %s | %s | %s |" % (sid, m.get("breaks_property"), (m.get("summary") or "").replace("|", "/").replace("\n", " ")[:330], (m.get("needs_to_manifest") or "").replace("|", "/").replace("\n", " ")[:260], caught))
own = [
 ("revert D1 `b281101`", "C02, C11", "Ietf nonce word corrupted after the last block", "seek next to 2^38, read the last block, seek anywhere, read", "`C02 quick`, `C11 quick` -> I1/I6"),
 ("revert D2 `0e955b0`", "C02", "debug-profile panic after seek into block 0 (64-bit variants)", "overflow checks on + mid-block seek into block 0 + apply", "`C02 quick` -> I3 (checked/dev legs)"),
 ("revert D3 `1dc2810`", "C02", "current_pos unimplemented", "any current_pos call", "`C02 quick` -> I2p"),
 ("revert D4 `b0237aa`", "C11", "try_seek past the IETF end panics", "try_seek(> 2^38)", "`C11 quick` -> I4p"),
 ("revert D5 `596dd02`", "C03", "BLAKE-384/512 panic on the portable backend", "portable build + BLAKE-384/512", "`C03 quick` -> X3 std vs portable (C08 stays quiet: no history dependence)"),
 ("revert D6 `17eeb9a`", "C14", "refill panics at counter 2^64-1 in debug", "overflow checks + counter within 4 of 2^64", "`C14 quick` -> R0 (checked/dev legs)"),
 ("revert D7 `eb6fba9`", "C03", "BLAKE-384/512 wrong digest on SSE2-only backend", "host without SSSE3 (simulated level 1 or nostd-sse2 build)", "`C03 quick` -> X1 hosts disagree (minimised to one `final` on Blake384)"),
 ("scratch: Groestl lazy_static -> racy `static mut` + flag", "C18", "one-time init of the Groestl function pointers is racy", "two threads' first Groestl calls overlapping", "`C18 quick` -> T1 data race (Miri)"),
 ("scratch: ChaCha's double-round count handed to the tail loop through a process-wide atomic", "C18", "a call uses the round count of whichever variant stored last", "two ChaCha variants with different round counts in overlapping calls", "`C18 quick` -> T1 result differs from the sequential expectation, needs overlap (family mix hammer 147 via `tools/miri_only.py quick 147`: 1 of its 2 quick jobs; also first-call workload 19, whose later calls are other kinds)"),
 ("scratch: Skein config block cached in a function-local `static`", "C18", "all output sizes share one cached IV (fails the existing suite, kept only as a probe)", "two Skein output sizes of one state size in one process", "`C18 quick` -> L3 cold-process isolation"),
 ("scratch: aligned load in Groestl tf512 / extra byte read in JH f8", "C16", "aligned intrinsic / over-read", "unaligned block / block ending at a page edge", "`C16 quick` -> M2 process killed by SIGSEGV, reduced to one operation"),
 ("scratch: four counter truncations (BLAKE carry, Groestl u32, JH u32, Skein u32)", "C17", "counter loses bits above 2^32", "counter next to 2^32 / 2^64", "`C17 quick` -> K1/K2"),
]
out = ["| id | breaks | change (author's summary) | needs to manifest | caught by |", "|---|---|---|---|---|"] + rows
out += ["", "Own scratch changes (not kept as patches; the first seven are `git revert` of the fix commits):", "", "| change | breaks | what | needs | caught by |", "|---|---|---|---|---|"]
out += ["| %s | %s | %s | %s | %s |" % r for r in own]
p = os.path.join(V, "DESIGN.md")
s = open(p).read()
block = "<!-- SEEDED-TABLE-BEGIN -->\n" + "\n".join(out) + "\n<!-- SEEDED-TABLE-END -->"
if "SEEDED_TABLE_PLACEHOLDER" in s:
    s = s.replace("SEEDED_TABLE_PLACEHOLDER", block)
else:
    s = re.sub(r"<!-- SEEDED-TABLE-BEGIN -->.*?<!-- SEEDED-TABLE-END -->", lambda m: block, s, flags=re.S)
open(p, "w").write(s)
print(len(rows), "seeded changes in table")
