//! S7b: threads from a cold process under a controlled (seeded) scheduler.
//! Natively:   mirithreads expected <base_seed> <nworkloads>           prints the sequential expectations table
//!             mirithreads plan <base_seed> <nworkloads>               prints the workloads
//! Under Miri: mirithreads run <base_seed> <nworkloads> <table> [idx]  picks ONE workload - from the interpreter's
//!             seeded address randomisation unless idx is given, so that one `-Zmiri-seed` is one workload and one
//!             schedule - releases its threads from a barrier and compares every result with the expectation.
//! In every workload ALL threads make the same kind of call first (racing on whatever that call initialises
//! lazily in a cold process); the focus kind cycles over all operation kinds with the workload index.
use std::sync::atomic::{AtomicU64, Ordering};
use std::sync::{Arc, Barrier};

use blake_hash::{Blake224, Blake256, Blake384, Blake512};
use c2_chacha::guts::ChaCha;
use c2_chacha::{ChaCha12, ChaCha20, ChaCha8, Ietf, XChaCha12, XChaCha20, XChaCha8};
use cipher::generic_array::GenericArray;
use cipher::{BlockEncrypt, NewBlockCipher, NewCipher, StreamCipher, StreamCipherSeek};
use digest::generic_array::typenum::{U128, U32, U64};
use digest::Digest;
use groestl_aesni::{Groestl224, Groestl256, Groestl384, Groestl512};
use jh_x86_64::{Jh224, Jh256, Jh384, Jh512};
use skein_hash::{Skein1024, Skein256, Skein512};
use threefish_cipher::{Threefish1024, Threefish256, Threefish512};

fn splitmix(x: &mut u64) -> u64 {
    *x = x.wrapping_add(0x9e37_79b9_7f4a_7c15);
    let mut z = *x;
    z = (z ^ (z >> 30)).wrapping_mul(0xbf58_476d_1ce4_e5b9);
    z = (z ^ (z >> 27)).wrapping_mul(0x94d0_49bb_1331_11eb);
    z ^ (z >> 31)
}

fn fold(b: &[u8]) -> u64 {
    let mut h = 0xcbf2_9ce4_8422_2325u64;
    for x in b {
        h = (h ^ *x as u64).wrapping_mul(0x1000_0000_01b3);
    }
    h
}

pub const OP_NAMES: [&str; 37] = [
    "groestl256", "groestl512", "groestl224", "groestl384", "jh256", "blake256", "blake512", "chacha20", "ietf_seek", "skein256_256", "threefish256", "skein512_512", "skein1024_1024",
    "jh512", "skein512_256", "blake224", "blake384", "jh224", "jh384", "chacha8", "chacha12", "xchacha8", "xchacha12", "xchacha20", "threefish512", "threefish1024_tweak", "block_api_refill4",
    "skein256_512", "skein1024_256", "groestl256_chunked", "blake256_chunked",
    // long single calls (bulk paths): several KiB per call, different data in every thread
    "chacha8_4200", "blake256_2100", "blake512_4300", "groestl256_600", "jh256_300", "skein512_1100",
];
pub const NOPS: u64 = 37;
/// kinds 40..: one LONG single call of one concrete type on input that starts 1..15 bytes into its allocation; the length is the
/// top twenty bits of the tag (only the "mix" workloads use them: every thread another variant of the same family)
pub const MIX_NAMES: [&str; 28] = [
    "jh224_long", "jh256_long", "jh384_long", "jh512_long", "groestl224_long", "groestl256_long", "groestl384_long", "groestl512_long", "blake224_long", "blake256_long",
    "blake384_long", "blake512_long", "skein256_32_long", "skein512_64_long", "skein1024_128_long", "skein512_32_long", "skein1024_32_long", "skein1024_64_long",
    "skein1024_16_long", "skein1024_48_long", "chacha20_long", "chacha8_long", "ietf_long", "xchacha20_long",
    "skein1024_8_long", "skein512_16_long", "skein512_48_long", "skein512_8_long",
];
pub const MIX_FROM: u64 = 40;
/// mix workloads: (kinds of the threads, bytes per call)
pub const MIXES: [(&[u64], usize, usize); 16] = [
    (&[40, 41, 42, 43], 1100, 1),
    (&[44, 45, 46, 47], 1100, 1),
    (&[48, 49, 50, 51], 2100, 1),
    (&[52, 53, 54, 55, 56], 1100, 1),
    (&[60, 61, 62, 63], 4200, 1),
    // more output lengths of one state size than "a few": six Skein-1024 / Skein-512 configurations at once
    (&[54, 56, 57, 58, 59, 54], 300, 1),
    // thorough only (minutes of interpreter time each): two variants in 16 KiB calls
    (&[41, 43], 16448, 1),
    (&[45, 47], 16448, 1),
    (&[49, 51], 16448, 1),
    // "mix hammer": six / five output lengths of one Skein state size, eight short calls per thread (a per-process cache keyed by
    // a parameter with fewer ways than there are values in use is recycled all the time, under the readers' feet)
    (&[54, 56, 57, 58, 59, 64], 20, 8),
    (&[53, 55, 65, 66, 67], 20, 8),
    // the same for the short kinds (< 40: the call's arguments come from the whole tag): every variant of one family at once,
    // eight short calls per thread
    (&[7, 19, 20, 23, 8, 21], 0, 8),
    (&[5, 6, 15, 16], 0, 8),
    (&[4, 13, 17, 18], 0, 6),
    (&[0, 1, 2, 3], 0, 6),
    (&[10, 24, 25, 9, 27], 0, 6),
];
pub const NMIX: u64 = 16;

fn op_name(k: u64) -> &'static str {
    if k >= MIX_FROM {
        MIX_NAMES[(k - MIX_FROM) as usize]
    } else {
        OP_NAMES[k as usize]
    }
}
/// 2^8 - 10 (default) or 2^16 - 10 (argument): a narrow counter bumped once or twice per construction wraps within the next
/// twenty constructions
pub const WARMUP8: u64 = 246;

fn long_msg(tag: u64, n: usize) -> Vec<u8> {
    let mut s = tag ^ 0x5555;
    let mut v = Vec::with_capacity(n + 8);
    while v.len() < n {
        v.extend_from_slice(&splitmix(&mut s).to_le_bytes());
    }
    v.truncate(n);
    v
}

fn long_off(tag: u64) -> usize {
    1 + ((tag >> 24) % 15) as usize
}

/// construct (and drop) one instance of the type behind operation kind `kind`: the warm-up of the wrap workloads
fn construct(kind: u64, i: u64) -> u64 {
    let mut key = [0u8; 128];
    key[..8].copy_from_slice(&i.to_le_bytes());
    let k32 = GenericArray::from_slice(&key[..32]);
    match kind {
        0 | 29 | 34 => std::mem::size_of_val(&Groestl256::default()) as u64,
        1 => std::mem::size_of_val(&Groestl512::default()) as u64,
        2 => std::mem::size_of_val(&Groestl224::default()) as u64,
        3 => std::mem::size_of_val(&Groestl384::default()) as u64,
        4 | 35 => std::mem::size_of_val(&Jh256::default()) as u64,
        5 | 30 | 32 => std::mem::size_of_val(&Blake256::default()) as u64,
        6 | 33 => std::mem::size_of_val(&Blake512::default()) as u64,
        7 => std::mem::size_of_val(&ChaCha20::new(k32, GenericArray::from_slice(&key[32..40]))) as u64,
        8 => std::mem::size_of_val(&Ietf::new(k32, GenericArray::from_slice(&key[32..44]))) as u64,
        9 => std::mem::size_of_val(&Skein256::<U32>::default()) as u64,
        10 => std::mem::size_of_val(&Threefish256::new(k32)) as u64,
        11 | 14 | 36 => std::mem::size_of_val(&Skein512::<U64>::default()) as u64,
        12 | 28 => std::mem::size_of_val(&Skein1024::<U128>::default()) as u64,
        13 => std::mem::size_of_val(&Jh512::default()) as u64,
        15 => std::mem::size_of_val(&Blake224::default()) as u64,
        16 => std::mem::size_of_val(&Blake384::default()) as u64,
        17 => std::mem::size_of_val(&Jh224::default()) as u64,
        18 => std::mem::size_of_val(&Jh384::default()) as u64,
        19 | 31 => std::mem::size_of_val(&ChaCha8::new(k32, GenericArray::from_slice(&key[32..40]))) as u64,
        20 => std::mem::size_of_val(&ChaCha12::new(k32, GenericArray::from_slice(&key[32..40]))) as u64,
        21 => std::mem::size_of_val(&XChaCha8::new(k32, GenericArray::from_slice(&key[32..56]))) as u64,
        22 => std::mem::size_of_val(&XChaCha12::new(k32, GenericArray::from_slice(&key[32..56]))) as u64,
        23 => std::mem::size_of_val(&XChaCha20::new(k32, GenericArray::from_slice(&key[32..56]))) as u64,
        24 => std::mem::size_of_val(&Threefish512::new(GenericArray::from_slice(&key[..64]))) as u64,
        25 => std::mem::size_of_val(&Threefish1024::new(GenericArray::from_slice(&key[..128]))) as u64,
        26 => {
            let mut k = [0u8; 32];
            k.copy_from_slice(&key[..32]);
            std::mem::size_of_val(&ChaCha::new(&k, &key[32..40])) as u64
        }
        _ => std::mem::size_of_val(&Skein256::<U64>::default()) as u64,
    }
}

/// one short operation on a private instance; message/key derived from the tag so that every result is unique
fn op(kind: u64, tag: u64) -> u64 {
    let mut s = tag;
    let mut msg = [0u8; 40];
    for c in msg.chunks_mut(8) {
        c.copy_from_slice(&splitmix(&mut s).to_le_bytes());
    }
    let n = 1 + (tag % 39) as usize;
    if kind >= MIX_FROM {
        let len = (tag >> 44) as usize;
        // the input starts 1..15 bytes past a 16-byte boundary whatever address the allocator (under the interpreter: the seed)
        // hands out - the content does not depend on where it lies
        let content = long_msg(tag, len);
        let mut buf = vec![0u8; len + 32];
        let off = (long_off(tag) + 16 - (buf.as_ptr() as usize % 16)) % 16;
        buf[off..off + len].copy_from_slice(&content);
        let m = &buf[off..off + len];
        macro_rules! stream {
            ($T:ty, $nl:expr) => {{
                let mut c = <$T>::new(GenericArray::from_slice(&msg[..32]), GenericArray::from_slice(&msg[8..8 + $nl]));
                let mut b = buf.clone();
                let off = (long_off(tag) + 16 - (b.as_ptr() as usize % 16)) % 16;
                b[off..off + len].copy_from_slice(&content);
                c.apply_keystream(&mut b[off..off + len]);
                fold(&b[off..off + len])
            }};
        }
        return match kind - MIX_FROM {
            0 => fold(&Jh224::digest(m)),
            1 => fold(&Jh256::digest(m)),
            2 => fold(&Jh384::digest(m)),
            3 => fold(&Jh512::digest(m)),
            4 => fold(&Groestl224::digest(m)),
            5 => fold(&Groestl256::digest(m)),
            6 => fold(&Groestl384::digest(m)),
            7 => fold(&Groestl512::digest(m)),
            8 => fold(&Blake224::digest(m)),
            9 => fold(&Blake256::digest(m)),
            10 => fold(&Blake384::digest(m)),
            11 => fold(&Blake512::digest(m)),
            12 => fold(&Skein256::<U32>::digest(m)),
            13 => fold(&Skein512::<U64>::digest(m)),
            14 => fold(&Skein1024::<U128>::digest(m)),
            15 => fold(&Skein512::<U32>::digest(m)),
            16 => fold(&Skein1024::<U32>::digest(m)),
            17 => fold(&Skein1024::<U64>::digest(m)),
            18 => fold(&Skein1024::<digest::generic_array::typenum::U16>::digest(m)),
            19 => fold(&Skein1024::<digest::generic_array::typenum::U48>::digest(m)),
            20 => stream!(ChaCha20, 8),
            21 => stream!(ChaCha8, 8),
            22 => stream!(Ietf, 12),
            23 => stream!(XChaCha20, 24),
            24 => fold(&Skein1024::<digest::generic_array::typenum::U8>::digest(m)),
            25 => fold(&Skein512::<digest::generic_array::typenum::U16>::digest(m)),
            26 => fold(&Skein512::<digest::generic_array::typenum::U48>::digest(m)),
            _ => fold(&Skein512::<digest::generic_array::typenum::U8>::digest(m)),
        };
    }
    match kind {
        0 => fold(&Groestl256::digest(&msg[..n])),
        1 => fold(&Groestl512::digest(&msg[..n])),
        2 => fold(&Groestl224::digest(&msg[..n])),
        3 => fold(&Groestl384::digest(&msg[..n])),
        4 => fold(&Jh256::digest(&msg[..n])),
        5 => fold(&Blake256::digest(&msg[..n])),
        6 => fold(&Blake512::digest(&msg[..n])),
        7 => {
            let mut c = ChaCha20::new(GenericArray::from_slice(&msg[..32]), GenericArray::from_slice(&msg[32..40]));
            let mut buf = [0u8; 70];
            c.apply_keystream(&mut buf);
            fold(&buf)
        }
        8 => {
            let mut c = Ietf::new(GenericArray::from_slice(&msg[..32]), GenericArray::from_slice(&msg[28..40]));
            c.seek(100u64 + (tag % 64));
            let mut buf = [0u8; 30];
            c.apply_keystream(&mut buf);
            fold(&buf)
        }
        9 => fold(&Skein256::<U32>::digest(&msg[..n])),
        10 => {
            let f = Threefish256::new(GenericArray::from_slice(&msg[..32]));
            let mut b = GenericArray::clone_from_slice(&msg[8..40]);
            f.encrypt_block(&mut b);
            fold(&b)
        }
        11 => fold(&Skein512::<U64>::digest(&msg[..n])),
        12 => fold(&Skein1024::<U128>::digest(&msg[..n])),
        13 => fold(&Jh512::digest(&msg[..n])),
        14 => fold(&Skein512::<U32>::digest(&msg[..n])),
        15 => fold(&Blake224::digest(&msg[..n])),
        16 => fold(&Blake384::digest(&msg[..n])),
        17 => fold(&Jh224::digest(&msg[..n])),
        18 => fold(&Jh384::digest(&msg[..n])),
        19 => {
            let mut c = ChaCha8::new(GenericArray::from_slice(&msg[..32]), GenericArray::from_slice(&msg[32..40]));
            let mut buf = [0u8; 33];
            c.apply_keystream(&mut buf);
            fold(&buf)
        }
        20 => {
            let mut c = ChaCha12::new(GenericArray::from_slice(&msg[..32]), GenericArray::from_slice(&msg[32..40]));
            let mut buf = [0u8; 65];
            c.seek(7u32);
            c.apply_keystream(&mut buf);
            fold(&buf)
        }
        21 | 22 | 23 => {
            let mut nonce = [0u8; 24];
            nonce.copy_from_slice(&msg[8..32]);
            let key = GenericArray::from_slice(&msg[..32]);
            let mut buf = [0u8; 40];
            match kind {
                21 => XChaCha8::new(key, GenericArray::from_slice(&nonce)).apply_keystream(&mut buf),
                22 => XChaCha12::new(key, GenericArray::from_slice(&nonce)).apply_keystream(&mut buf),
                _ => XChaCha20::new(key, GenericArray::from_slice(&nonce)).apply_keystream(&mut buf),
            }
            fold(&buf)
        }
        24 => {
            let mut key = [0u8; 64];
            key[..40].copy_from_slice(&msg);
            let f = Threefish512::new(GenericArray::from_slice(&key));
            let mut b = GenericArray::clone_from_slice(&key);
            f.encrypt_block(&mut b);
            fold(&b)
        }
        25 => {
            let mut key = [0u8; 128];
            key[..40].copy_from_slice(&msg);
            let f = Threefish1024::with_tweak(GenericArray::from_slice(&key), tag, !tag);
            let mut b = GenericArray::clone_from_slice(&key);
            f.encrypt_block(&mut b);
            fold(&b)
        }
        26 => {
            let mut key = [0u8; 32];
            key.copy_from_slice(&msg[..32]);
            let mut c = ChaCha::new(&key, &msg[28..40]);
            c.set_stream_param(0, tag | 0xffff_fffe);
            let mut out = [0u8; 256];
            c.refill4(4, &mut out);
            fold(&out) ^ c.get_stream_param(0)
        }
        27 => fold(&Skein256::<U64>::digest(&msg[..n])),
        28 => fold(&Skein1024::<U32>::digest(&msg[..n])),
        31 => {
            // (the 8-round variant: the same code path for a fraction of the interpreter time)
            let mut c = ChaCha8::new(GenericArray::from_slice(&msg[..32]), GenericArray::from_slice(&msg[32..40]));
            let mut buf = long_msg(tag, 4200 + 16);
            let off = long_off(tag);
            c.apply_keystream(&mut buf[off..off + 4200]);
            fold(&buf[off..off + 4200])
        }
        // (the long inputs start 1..15 bytes after the allocation: a bulk path may treat misaligned input differently)
        32 => fold(&Blake256::digest(&long_msg(tag, 2100 + 16)[long_off(tag)..long_off(tag) + 2100])),
        33 => fold(&Blake512::digest(&long_msg(tag, 4300 + 16)[long_off(tag)..long_off(tag) + 4300])),
        34 => fold(&Groestl256::digest(&long_msg(tag, 1100 + 16)[long_off(tag)..long_off(tag) + 1100])),
        35 => fold(&Jh256::digest(&long_msg(tag, 330 + 16)[long_off(tag)..long_off(tag) + 330])),
        36 => fold(&Skein512::<U64>::digest(&long_msg(tag, 1100 + 16)[long_off(tag)..long_off(tag) + 1100])),
        29 => {
            let mut h = Groestl256::new();
            h.update(&msg[..n / 2]);
            let mut h2 = h.clone();
            h2.update(&msg[n / 2..n]);
            fold(&h2.finalize_reset())
        }
        _ => {
            let mut h = Blake256::new();
            h.update(&msg[..n / 2]);
            h.update(&msg[n / 2..n]);
            fold(&h.finalize())
        }
    }
}

/// workload `w`: (threads, per-thread op lists). Every thread's FIRST call is of the focus kind.
fn workload(base: u64, w: u64) -> Vec<Vec<(u64, u64)>> {
    let mut s = base ^ w.wrapping_mul(0x1234_5678_9abc_def1);
    if w >= 2 * NOPS + 62 {
        // "mix" workloads: every thread makes one long call on ANOTHER variant of the same family (Jh224 | Jh256 | Jh384 | Jh512 ...):
        // whatever the variants of a crate share per process (scratch areas, caches keyed by a parameter) is used by all at once
        let (kinds, len, reps) = MIXES[((w - 2 * NOPS - 62) % NMIX) as usize];
        return kinds.iter().map(|k| (0..reps).map(|_| (*k, if *k >= MIX_FROM { ((len as u64) << 44) | (splitmix(&mut s) & ((1 << 44) - 1)) } else { splitmix(&mut s) })).collect()).collect();
    }
    if w >= 2 * NOPS + 31 {
        // "wrap" workloads: the hammer below, after 246 (or 65526) constructions of the same type on the main thread (run mode does
        // them): a use counter narrower than the number of instances a process creates wraps during the hammer
        return workload(base ^ 0x7772_6170, w - 31);
    }
    if w >= 2 * NOPS {
        // "hammer" workloads: three threads make the same kind of short call ten times each, alternating between two
        // arguments of their own - anything cached or shared between calls (per process, not per instance) is written and
        // re-read by all of them all the time
        let focus = (w - 2 * NOPS) % 31;
        let mut out = Vec::new();
        for _ in 0..3 {
            let (a, b) = (splitmix(&mut s), splitmix(&mut s));
            let pat = splitmix(&mut s);
            let mut v = vec![(focus, a)];
            for i in 0..9 {
                v.push((focus, if (pat >> i) & 1 == 0 { a } else { b }));
            }
            out.push(v);
        }
        return out;
    }
    let focus = w % NOPS;
    if focus >= 31 && w >= NOPS {
        // the second bulk workload of each kind: five threads, one long call each (a pool of shared scratch buffers sized for
        // "a few" concurrent callers is over-subscribed only by many)
        return (0..5).map(|_| vec![(focus, splitmix(&mut s))]).collect();
    }
    let threads = if focus >= 31 { 3 } else { 2 + splitmix(&mut s) % 3 };
    let steps = if focus >= 31 { 1 } else { 2 + splitmix(&mut s) % 3 };
    let mut out = Vec::new();
    for t in 0..threads {
        let mut v = vec![(focus, splitmix(&mut s))];
        if focus >= 31 {
            // long calls are expensive under the interpreter: such a workload is long calls of one kind only - one to three
            // per thread, so that a thread can enter the bulk path again while another one is still inside its first call
            // (the first thread makes one call, the second at least two)
            let more = match t {
                0 => 0,
                1 => 1,
                _ => splitmix(&mut s) % 2,
            };
            for _ in 0..more {
                v.push((focus, splitmix(&mut s)));
            }
        }
        for _ in 1..steps {
            // later calls: sometimes exactly the same call again (same key / message: a value cached by the first call must
            // still belong to it), otherwise other entry points, racing with the other threads' first calls
            let c = splitmix(&mut s) % 4;
            if c == 0 {
                let prev = v[(splitmix(&mut s) % v.len() as u64) as usize];
                v.push(prev);
                continue;
            }
            let k = if c == 1 { (focus + 1 + splitmix(&mut s) % 3) % 31 } else { splitmix(&mut s) % 31 };
            v.push((k, splitmix(&mut s)));
        }
        out.push(v);
    }
    out
}

/// S5 second pass (C16): every byte-slice argument is an EXACT-SIZE heap allocation of its own, so that the
/// interpreter's byte-granular bounds checking sees any access outside the caller's slice - including a read, or a
/// write of the same value, that stays inside a mapped page and that guard pages therefore cannot see.
/// `part`/`parts` select a slice of the operation list (chosen from the interpreter's seeded address randomisation
/// when `part` is not given).
fn mem_ops(base: u64, part: u64, parts: u64) -> u64 {
    use digest::{FixedOutput, Update};
    let mut s = base;
    let mut acc = 0u64;
    let mut idx = 0u64;
    let mut exact = |len: usize, s: &mut u64| -> Box<[u8]> {
        let mut v = Vec::with_capacity(len);
        for _ in 0..len {
            v.push(splitmix(s) as u8);
        }
        v.into_boxed_slice()
    };
    macro_rules! cipher {
        ($T:ty, $nl:expr, $pre:expr, $len:expr) => {{
            idx += 1;
            if idx % parts == part {
                let key = exact(32, &mut s);
                let nonce = exact($nl, &mut s);
                let mut c = <$T>::new(GenericArray::from_slice(&key), GenericArray::from_slice(&nonce));
                let mut pre = exact($pre, &mut s);
                c.apply_keystream(&mut pre);
                let mut buf = exact($len, &mut s);
                c.apply_keystream(&mut buf);
                acc ^= fold(&buf);
            }
        }};
    }
    macro_rules! hash {
        ($T:ty, $pre:expr, $len:expr) => {{
            idx += 1;
            if idx % parts == part {
                let mut h = <$T>::default();
                let pre = exact($pre, &mut s);
                Update::update(&mut h, &pre[..]);
                let msg = exact($len, &mut s);
                Update::update(&mut h, &msg[..]);
                let mut out = exact(<$T as Digest>::output_size(), &mut s);
                h.finalize_into(GenericArray::from_mut_slice(&mut out));
                acc ^= fold(&out);
            }
        }};
    }
    for (pre, len) in [(0usize, 1usize), (0, 15), (0, 36), (0, 63), (0, 64), (0, 65), (1, 100), (17, 47), (63, 2), (0, 256 + 36), (5, 300)] {
        cipher!(ChaCha20, 8, pre, len);
        cipher!(Ietf, 12, pre, len);
        cipher!(XChaCha8, 24, pre, len);
        cipher!(ChaCha8, 8, pre, len);
        cipher!(ChaCha12, 8, pre, len);
        cipher!(XChaCha12, 24, pre, len);
        cipher!(XChaCha20, 24, pre, len);
    }
    for (pre, len) in [(0usize, 0usize), (0, 1), (0, 55), (3, 64), (0, 65), (1, 127), (0, 129), (31, 33), (0, 200)] {
        hash!(Blake224, pre, len);
        hash!(Blake256, pre, len);
        hash!(Blake384, pre, len);
        hash!(Blake512, pre, len);
        hash!(Groestl224, pre, len);
        hash!(Groestl256, pre, len);
        hash!(Groestl384, pre, len);
        hash!(Groestl512, pre, len);
        hash!(Jh224, pre, len);
        hash!(Jh256, pre, len);
        hash!(Jh384, pre, len);
        hash!(Jh512, pre, len);
        hash!(Skein256<U32>, pre, len);
        hash!(Skein512<U64>, pre, len);
        hash!(Skein1024<U128>, pre, len);
        hash!(Skein512<U32>, pre, len);
    }
    for _ in 0..2 {
        idx += 1;
        if idx % parts == part {
            let key = exact(32, &mut s);
            let f = Threefish256::new(GenericArray::from_slice(&key));
            let mut b = exact(32, &mut s);
            f.encrypt_block(GenericArray::from_mut_slice(&mut b));
            acc ^= fold(&b);
            let key = exact(64, &mut s);
            let f = Threefish512::with_tweak(GenericArray::from_slice(&key), 1, 2);
            let mut b = exact(64, &mut s);
            f.encrypt_block(GenericArray::from_mut_slice(&mut b));
            acc ^= fold(&b);
            let key = exact(128, &mut s);
            let f = Threefish1024::new(GenericArray::from_slice(&key));
            let mut b = exact(128, &mut s);
            f.encrypt_block(GenericArray::from_mut_slice(&mut b));
            acc ^= fold(&b);
            let key = exact(32, &mut s);
            let karr: &[u8; 32] = (&key[..]).try_into().unwrap();
            let nonce = exact(12, &mut s);
            let mut c = ChaCha::new(karr, &nonce);
            let mut o1 = exact(64, &mut s);
            c.refill(3, (&mut o1[..]).try_into().unwrap());
            let mut o4 = exact(256, &mut s);
            c.refill4(2, (&mut o4[..]).try_into().unwrap());
            acc ^= fold(&o1) ^ fold(&o4);
        }
    }
    acc
}

fn plan_string(p: &[Vec<(u64, u64)>]) -> String {
    p.iter().map(|t| t.iter().map(|(k, tag)| format!("{}:{}", k, tag)).collect::<Vec<_>>().join(",")).collect::<Vec<_>>().join("|")
}

fn parse_plan(s: &str) -> Vec<Vec<(u64, u64)>> {
    s.split('|')
        .filter(|t| !t.is_empty())
        .map(|t| {
            t.split(',')
                .filter_map(|c| {
                    let (k, tag) = c.split_once(':')?;
                    Some((k.parse().ok()?, tag.parse().ok()?))
                })
                .collect()
        })
        .collect()
}

fn main() {
    let a: Vec<String> = std::env::args().collect();
    let mode = a.get(1).map(|s| s.as_str()).unwrap_or("");
    let base: u64 = a.get(2).and_then(|s| s.parse().ok()).unwrap_or(1);
    let nw: u64 = a.get(3).and_then(|s| s.parse().ok()).unwrap_or(74);
    match mode {
        "expected" => {
            // sequential, one at a time; workloads separated by ';'
            let mut all = Vec::new();
            for w in 0..nw {
                let mut out = Vec::new();
                for t in workload(base, w) {
                    for (k, tag) in t {
                        out.push(format!("{:x}", op(k, tag)));
                    }
                }
                all.push(out.join(","));
            }
            println!("{}", all.join(";"));
        }
        "mem" => {
            // mirithreads mem <base> <parts> [part]
            let parts = nw.max(1);
            let part = match a.get(4).and_then(|s| s.parse::<u64>().ok()) {
                Some(p) => p % parts,
                None => {
                    let mut x = 0u64;
                    for size in [1usize, 24, 100, 1000, 5000] {
                        let probe = vec![0u8; size];
                        x = x.rotate_left(13) ^ (probe.as_ptr() as usize as u64);
                        x = splitmix(&mut x);
                    }
                    x % parts
                }
            };
            let acc = mem_ops(base, part, parts);
            println!("MEM part={} of {} checksum={:x}", part, parts, acc);
        }
        "planraw" => {
            // mirithreads planraw <base> <nw> <w>: the workload as an explicit plan string (threads '|', calls kind:tag ',')
            let w: u64 = a.get(4).and_then(|s| s.parse().ok()).unwrap_or(0);
            println!("{}", plan_string(&workload(base, w)));
        }
        "expectplan" => {
            // mirithreads expectplan <base> <nw> <plan string>: the sequential results of an explicit plan
            let plan = parse_plan(a.get(4).map(|s| s.as_str()).unwrap_or(""));
            let mut out = Vec::new();
            for t in plan {
                for (k, tag) in t {
                    out.push(format!("{:x}", op(k, tag)));
                }
            }
            println!("{}", out.join(","));
        }
        "plan" => {
            for w in 0..nw {
                let p: Vec<String> = workload(base, w).iter().map(|t| t.iter().map(|(k, tag)| format!("{}#{:x}", op_name(*k), tag & 0xffff)).collect::<Vec<_>>().join(" ")).collect();
                println!("workload {}: {}", w, p.join(" | "));
            }
        }
        "run" => {
            let table: Vec<&str> = a.get(4).map(|s| s.split(';').collect()).unwrap_or_default();
            let has_plan = a.iter().any(|x| x.starts_with("plan="));
            assert!(has_plan || table.len() as u64 == nw, "expectation table does not match the number of workloads");
            let w = match a.get(5).and_then(|s| s.parse::<u64>().ok()) {
                Some(i) => i % nw,
                None => {
                    // the interpreter's seeded address randomisation picks the workload: one -Zmiri-seed = one workload
                    let mut x = 0u64;
                    for size in [1usize, 24, 100, 1000, 5000] {
                        let probe = vec![0u8; size];
                        x = x.rotate_left(13) ^ (probe.as_ptr() as usize as u64);
                        x = splitmix(&mut x);
                    }
                    x % nw
                }
            };
            // an explicit plan (a minimised workload) and its expectations replace the generated ones: plan=.. exp=..
            let explicit = a.iter().find_map(|x| x.strip_prefix("plan=")).map(parse_plan);
            let explicit_exp: Option<Vec<u64>> = a.iter().find_map(|x| x.strip_prefix("exp=")).map(|e| e.split(',').filter_map(|x| u64::from_str_radix(x, 16).ok()).collect());
            let plan = explicit.unwrap_or_else(|| workload(base, w));
            let expected: Vec<u64> = explicit_exp.unwrap_or_else(|| table[w as usize].split(',').filter_map(|x| u64::from_str_radix(x, 16).ok()).collect());
            assert_eq!(expected.len(), plan.iter().map(|t| t.len()).sum::<usize>(), "expectations do not match the plan");
            let threads = plan.len();
            println!("WORKLOAD {} threads={} first={}", w, threads, if w >= 2 * NOPS + 62 { format!("mix_{}", op_name(plan[0][0].0)) } else if w >= 2 * NOPS + 31 { format!("{}_x10_after_warmup", OP_NAMES[((w - 2 * NOPS - 31) % 31) as usize]) } else if w >= 2 * NOPS { format!("{}_x10", OP_NAMES[((w - 2 * NOPS) % 31) as usize]) } else { OP_NAMES[(w % NOPS) as usize].to_string() });
            // "seq": the same threads, one after the other (each joined before the next starts): tells whether a failure
            // needs the threads to overlap at all
            let seq = a.get(6).map(|x| x == "seq").unwrap_or(false);
            // rounds > 1 (hammer workloads): the same threads are spawned again in the same interpreter - the schedule of every
            // round differs (the scheduler's generator runs on), the interpreter's start-up cost is paid once
            let rounds: u64 = a.get(7).and_then(|x| x.parse().ok()).unwrap_or(1).max(1);
            // Relaxed counters only: logging must not add a happens-before edge that could hide a race
            let mismatches = Arc::new(AtomicU64::new(0));
            let first_bad = Arc::new(AtomicU64::new(u64::MAX));
            // global completion order of the calls (Relaxed: adds no happens-before edge): the visible trace of the schedule
            if w >= 2 * NOPS + 31 && w < 2 * NOPS + 62 {
                let kind = (w - 2 * NOPS - 31) % 31;
                let mut acc = 0u64;
                let n: u64 = a.get(8).and_then(|x| x.parse().ok()).unwrap_or(WARMUP8);
                for i in 0..n {
                    acc = acc.wrapping_add(construct(kind, i));
                }
                println!("WARMUP {} constructions ({})", n, acc);
            }
            let mut all_orders = Vec::new();
            for _round in 0..rounds {
            let barrier = Arc::new(Barrier::new(if seq { 1 } else { threads }));
            let order = Arc::new(AtomicU64::new(0));
            let mut logs: Vec<Vec<u64>> = Vec::new();
            let mut hs = Vec::new();
            let mut off = 0;
            for (t, p) in plan.clone().into_iter().enumerate() {
                let (b, mm, fb, ord) = (barrier.clone(), mismatches.clone(), first_bad.clone(), order.clone());
                let exp: Vec<u64> = expected[off..off + p.len()].to_vec();
                off += p.len();
                let h = std::thread::spawn(move || {
                    b.wait();
                    let mut log = Vec::new();
                    for (i, (k, tag)) in p.into_iter().enumerate() {
                        let got = op(k, tag);
                        log.push(ord.fetch_add(1, Ordering::Relaxed));
                        if got != exp[i] {
                            mm.fetch_add(1, Ordering::Relaxed);
                            fb.fetch_min(t as u64 * 1000 + i as u64, Ordering::Relaxed);
                        }
                    }
                    log
                });
                if seq {
                    logs.push(h.join().expect("thread panicked"));
                } else {
                    hs.push(h);
                }
            }
            for h in hs {
                logs.push(h.join().expect("thread panicked"));
            }
            all_orders.push(logs.iter().map(|l| l.iter().map(|x| x.to_string()).collect::<Vec<_>>().join(",")).collect::<Vec<_>>().join(" | "));
            }
            println!("ORDER {}", all_orders.join(" ;; "));
            let m = mismatches.load(Ordering::Relaxed);
            if m != 0 {
                let fb = first_bad.load(Ordering::Relaxed);
                println!("MISMATCH workload={} count={} first_thread={} first_step={}", w, m, fb / 1000, fb % 1000);
                std::process::exit(1);
            }
            println!("OK workload={}", w);
        }
        _ => {
            eprintln!("usage: mirithreads expected|plan|run <base_seed> <nworkloads> [table] [idx]");
            std::process::exit(2);
        }
    }
}
