//! S7b: threads from a cold process under a controlled (seeded) scheduler.
//! Natively:   mirithreads expected <workload_seed> <threads>         prints the sequential expectations
//! Under Miri: mirithreads run <workload_seed> <threads> <expected>   threads race from a barrier; every
//!             result is compared with the expectation; Miri's seeded scheduler decides every preemption and
//!             its data-race detector watches the one-time initialisations.
use std::sync::atomic::{AtomicU64, Ordering};
use std::sync::{Arc, Barrier};

use blake_hash::{Blake256, Blake512};
use c2_chacha::{ChaCha20, Ietf};
use cipher::generic_array::GenericArray;
use cipher::{BlockEncrypt, NewBlockCipher, NewCipher, StreamCipher, StreamCipherSeek};
use digest::Digest;
use groestl_aesni::{Groestl224, Groestl256, Groestl384, Groestl512};
use jh_x86_64::Jh256;
use skein_hash::Skein256;
use threefish_cipher::Threefish256;

fn splitmix(x: &mut u64) -> u64 {
    *x = x.wrapping_add(0x9e37_79b9_7f4a_7c15);
    let mut z = *x;
    z = (z ^ (z >> 30)).wrapping_mul(0xbf58_476d_1ce4_e5b9);
    z = (z ^ (z >> 27)).wrapping_mul(0x94d0_49bb_1331_11eb);
    z ^ (z >> 31)
}

fn fold(b: &[u8]) -> u64 {
    let mut h = 0xcbf2_9ce4_8422_2325u64;
    for x in b {
        h = (h ^ *x as u64).wrapping_mul(0x1000_0000_01b3);
    }
    h
}

pub const NOPS: u64 = 11;
pub const OP_NAMES: [&str; 11] = ["groestl256", "groestl512", "groestl224", "groestl384", "jh256", "blake256", "blake512", "chacha20", "ietf_seek", "skein256", "threefish256"];

/// one short operation on a private instance; message/key derived from (thread, step) so that every result is unique
fn op(kind: u64, tag: u64) -> u64 {
    let mut s = tag;
    let mut msg = [0u8; 40];
    for c in msg.chunks_mut(8) {
        c.copy_from_slice(&splitmix(&mut s).to_le_bytes());
    }
    let n = 1 + (tag % 39) as usize;
    match kind {
        0 => fold(&Groestl256::digest(&msg[..n])),
        1 => fold(&Groestl512::digest(&msg[..n])),
        2 => fold(&Groestl224::digest(&msg[..n])),
        3 => fold(&Groestl384::digest(&msg[..n])),
        4 => fold(&Jh256::digest(&msg[..n])),
        5 => fold(&Blake256::digest(&msg[..n])),
        6 => fold(&Blake512::digest(&msg[..n])),
        7 => {
            let mut c = ChaCha20::new(GenericArray::from_slice(&msg[..32]), GenericArray::from_slice(&msg[32..40]));
            let mut buf = [0u8; 70];
            c.apply_keystream(&mut buf);
            fold(&buf)
        }
        8 => {
            let mut c = Ietf::new(GenericArray::from_slice(&msg[..32]), GenericArray::from_slice(&msg[28..40]));
            c.seek(100u64 + (tag % 64));
            let mut buf = [0u8; 30];
            c.apply_keystream(&mut buf);
            fold(&buf)
        }
        9 => fold(&Skein256::<digest::generic_array::typenum::U32>::digest(&msg[..n])),
        _ => {
            let f = Threefish256::new(GenericArray::from_slice(&msg[..32]));
            let mut b = GenericArray::clone_from_slice(&msg[8..40]);
            f.encrypt_block(&mut b);
            fold(&b)
        }
    }
}

/// the operation list of thread `t`: the first entry is what the thread calls FIRST in the cold process
fn plan(workload_seed: u64, t: u64, steps: u64) -> Vec<(u64, u64)> {
    let mut s = workload_seed ^ t.wrapping_mul(0x1234_5678_9abc_def1);
    let mut v = Vec::new();
    // bias first calls towards the lazily initialised Groestl entry points so that threads race on the same
    // and on different tables
    let first = match splitmix(&mut s) % 8 {
        0 | 1 | 2 => 0,
        3 | 4 => 1,
        5 => 2 + splitmix(&mut s) % 2,
        _ => splitmix(&mut s) % NOPS,
    };
    v.push((first, splitmix(&mut s)));
    for _ in 1..steps {
        v.push((splitmix(&mut s) % NOPS, splitmix(&mut s)));
    }
    v
}

fn main() {
    let a: Vec<String> = std::env::args().collect();
    let mode = a.get(1).map(|s| s.as_str()).unwrap_or("");
    let seed: u64 = a.get(2).and_then(|s| s.parse().ok()).unwrap_or(1);
    let threads: u64 = a.get(3).and_then(|s| s.parse().ok()).unwrap_or(3);
    let steps: u64 = a.get(4).and_then(|s| s.parse().ok()).unwrap_or(3);
    match mode {
        "expected" => {
            // sequential, one at a time
            let mut out = Vec::new();
            for t in 0..threads {
                for (k, tag) in plan(seed, t, steps) {
                    out.push(format!("{:016x}", op(k, tag)));
                }
            }
            println!("{}", out.join(","));
        }
        "plan" => {
            for t in 0..threads {
                let p: Vec<String> = plan(seed, t, steps).iter().map(|(k, tag)| format!("{}#{:x}", OP_NAMES[*k as usize], tag)).collect();
                println!("thread {}: {}", t, p.join(" "));
            }
        }
        "run" => {
            let expected: Vec<u64> = a.get(5).map(|s| s.split(',').filter_map(|x| u64::from_str_radix(x, 16).ok()).collect()).unwrap_or_default();
            assert_eq!(expected.len() as u64, threads * steps, "expectation list does not match the workload");
            let barrier = Arc::new(Barrier::new(threads as usize));
            // Relaxed counters only: logging must not add a happens-before edge that could hide a race
            let mismatches = Arc::new(AtomicU64::new(0));
            let first_bad = Arc::new(AtomicU64::new(u64::MAX));
            let mut hs = Vec::new();
            for t in 0..threads {
                let (b, mm, fb) = (barrier.clone(), mismatches.clone(), first_bad.clone());
                let exp: Vec<u64> = expected[(t * steps) as usize..((t + 1) * steps) as usize].to_vec();
                hs.push(std::thread::spawn(move || {
                    let p = plan(seed, t, steps);
                    b.wait();
                    for (i, (k, tag)) in p.into_iter().enumerate() {
                        let got = op(k, tag);
                        if got != exp[i] {
                            mm.fetch_add(1, Ordering::Relaxed);
                            fb.fetch_min(t * 1000 + i as u64, Ordering::Relaxed);
                        }
                    }
                }));
            }
            for h in hs {
                h.join().expect("thread panicked");
            }
            let m = mismatches.load(Ordering::Relaxed);
            if m != 0 {
                let fb = first_bad.load(Ordering::Relaxed);
                println!("MISMATCH count={} first_thread={} first_step={}", m, fb / 1000, fb % 1000);
                std::process::exit(1);
            }
            println!("OK threads={} steps={}", threads, steps);
        }
        _ => {
            eprintln!("usage: mirithreads expected|plan|run <workload_seed> <threads> <steps> [expected]");
            std::process::exit(2);
        }
    }
}
