//! The big-endian simulated host (Miri interpreting an s390x build) and its little-endian twin (native x86-64):
//! the same seeded operation list prints one transcript line per operation; the driver compares the two transcripts
//! (C03: identical results on every backend / build configuration; C14: refill4 = 4 x refill incl. the
//! `cfg(target_endian = "big")` counter helpers, which no x86 build even compiles).
//!   miribe <seed> <scale> [sections]
#[path = "../../sim/src/scen/vecops_core.rs"]
mod vecops_core;

use blake_hash::{Blake224, Blake256, Blake384, Blake512};
use c2_chacha::guts::ChaCha;
use c2_chacha::{ChaCha12, ChaCha20, ChaCha8, Ietf, XChaCha20, XChaCha8};
use cipher::generic_array::GenericArray;
use cipher::{BlockDecrypt, BlockEncrypt, NewBlockCipher, NewCipher, StreamCipher, StreamCipherSeek};
use digest::generic_array::typenum::{U128, U32, U64};
use digest::Digest;
use jh_x86_64::{Jh224, Jh256, Jh384, Jh512};
use skein_hash::{Skein1024, Skein256, Skein512};
use threefish_cipher::{Threefish1024, Threefish256, Threefish512};

fn splitmix(x: &mut u64) -> u64 {
    *x = x.wrapping_add(0x9e37_79b9_7f4a_7c15);
    let mut z = *x;
    z = (z ^ (z >> 30)).wrapping_mul(0xbf58_476d_1ce4_e5b9);
    z = (z ^ (z >> 27)).wrapping_mul(0x94d0_49bb_1331_11eb);
    z ^ (z >> 31)
}
fn fold(b: &[u8]) -> u64 {
    let mut h = 0xcbf2_9ce4_8422_2325u64;
    for x in b {
        h = (h ^ *x as u64).wrapping_mul(0x1000_0000_01b3);
    }
    h
}
fn bytes(s: &mut u64, n: usize) -> Vec<u8> {
    (0..n).map(|_| splitmix(s) as u8).collect()
}

fn main() {
    let a: Vec<String> = std::env::args().collect();
    let seed: u64 = a.get(1).and_then(|s| s.parse().ok()).unwrap_or(1);
    let scale: u64 = a.get(2).and_then(|s| s.parse().ok()).unwrap_or(1);
    // which sections run: any of "block", "cipher", "hash" (default all)
    let sections = a.get(3).cloned().unwrap_or_else(|| "block,cipher,hash".to_string());
    let on = |name: &str| sections.split(',').any(|x| x == name);
    let mut s = seed;
    let mut line = 0u64;
    let mut out = |what: &str, v: u64| {
        println!("T {} {} {:016x}", line, what, v);
        line += 1;
    };
    println!("ENDIAN {}", if cfg!(target_endian = "big") { "big" } else { "little" });
    // --- block API: the carry lands in each of the four lanes, and the counter wraps 2^64 -----------------------
    for round in 0..(if on("block") { scale } else { 0 }) {
        for low in [0xffff_fffcu32, 0xffff_fffd, 0xffff_fffe, 0xffff_ffff, 0, 0x7fff_ffff] {
            for hi in [0u32, 1, 0xffff_ffff, splitmix(&mut s) as u32] {
                let key: [u8; 32] = bytes(&mut s, 32).try_into().unwrap();
                let nonce = bytes(&mut s, if round % 2 == 0 { 8 } else { 12 });
                let dr = [0u32, 1, 4, 6, 10, 3][(splitmix(&mut s) % 6) as usize];
                let mut c = ChaCha::new(&key, &nonce);
                let ctr = ((hi as u64) << 32) | low as u64;
                c.set_stream_param(0, ctr);
                let mut wide = c.clone();
                let mut o4 = [0u8; 256];
                wide.refill4(dr, &mut o4);
                let mut o1 = [0u8; 256];
                for i in 0..4 {
                    let mut b = [0u8; 64];
                    c.refill(dr, &mut b);
                    o1[64 * i..64 * i + 64].copy_from_slice(&b);
                }
                // C14 on this host: bytes and resulting state of the two paths agree
                assert!(o4[..] == o1[..], "refill4 bytes differ from four refills at counter {:#x} dr {}", ctr, dr);
                assert!(wide == c, "refill4 leaves a different state than four refills at counter {:#x}", ctr);
                assert_eq!(wide.get_stream_param(0), ctr.wrapping_add(4), "counter after refill4 from {:#x}", ctr);
                out("refill4", fold(&o4) ^ wide.get_stream_param(0) ^ wide.get_stream_param(1).rotate_left(17));
            }
        }
    }
    // --- stream parameters (C15) on this host: set/get round trip, the other parameter and the key untouched, output equal
    //     to that of a state created directly with those values, the two stream-equality predicates ------------------------
    for round in 0..(if on("params") { 20 + 6 * scale } else { 0 }) {
        const EDGE: [u64; 10] = [0, 1, 0xffff_fffc, 0xffff_ffff, 0x1_0000_0000, 0x7fff_ffff_ffff_ffff, 0x8000_0000_0000_0000, 0xffff_ffff_0000_0000, 0xffff_ffff_ffff_fffd, 0xffff_ffff_ffff_ffff];
        let key: [u8; 32] = bytes(&mut s, 32).try_into().unwrap();
        let pick = |s: &mut u64| if splitmix(s) % 3 == 0 { splitmix(s) } else { EDGE[(splitmix(s) % 10) as usize] };
        // the first twenty rounds: every boundary value as the counter, followed by a 4-block and by a 1-block output
        let (v0, v1) = if round < 20 { (EDGE[(round / 2) as usize], pick(&mut s)) } else { (pick(&mut s), pick(&mut s)) };
        let nonce8 = bytes(&mut s, 8);
        let mut c = ChaCha::new(&key, &nonce8);
        let sid0 = c.get_stream_param(1);
        assert_eq!(sid0, u64::from_le_bytes(nonce8.clone().try_into().unwrap()), "stream id of a fresh state");
        assert_eq!(c.get_stream_param(0), 0, "counter of a fresh state");
        c.set_stream_param(0, v0);
        assert_eq!(c.get_stream_param(0), v0, "set/get parameter 0");
        assert_eq!(c.get_stream_param(1), sid0, "parameter 1 after setting parameter 0");
        c.set_stream_param(1, v1);
        assert_eq!(c.get_stream_param(1), v1, "set/get parameter 1");
        assert_eq!(c.get_stream_param(0), v0, "parameter 0 after setting parameter 1");
        // a state created directly with those values
        let mut d = ChaCha::new(&key, &v1.to_le_bytes());
        d.set_stream_param(0, v0);
        assert!(c == d, "state after set_stream_param differs from one created directly");
        assert!(c.stream64_eq(&d) && c.stream32_eq(&d), "equality predicates on equal streams");
        let mut e = d.clone();
        e.set_stream_param(0, v0 ^ (1 << (splitmix(&mut s) % 64)));
        assert!(c.stream64_eq(&e), "stream64_eq must ignore the counter");
        let mut f = d.clone();
        f.set_stream_param(1, v1 ^ (1 << (splitmix(&mut s) % 64)));
        assert!(!c.stream64_eq(&f) && !c.stream32_eq(&f), "equality predicates must see the stream id");
        let dr = [10u32, 4, 6, 0, 1, 3][(round % 6) as usize];
        let (mut o1, mut o2) = ([0u8; 256], [0u8; 256]);
        if round % 2 == 0 {
            c.refill4(dr, &mut o1);
            d.refill4(dr, &mut o2);
        } else {
            let (mut b1, mut b2) = ([0u8; 64], [0u8; 64]);
            c.refill(dr, &mut b1);
            d.refill(dr, &mut b2);
            o1[..64].copy_from_slice(&b1);
            o2[..64].copy_from_slice(&b2);
        }
        assert!(o1[..] == o2[..], "output after set_stream_param differs from a directly created state");
        assert_eq!(c.get_stream_param(1), v1, "stream id after output");
        // (how far the counter advanced is C14's statement, not C15's: only that both states advanced alike)
        assert_eq!(c.get_stream_param(0), d.get_stream_param(0), "counter after output differs from the directly created state's");
        out("params", fold(&o1) ^ c.get_stream_param(1).rotate_left(23));
    }
    // --- stream ciphers: seeks across the low counter word carry, mid-block, current_pos ---------------------------
    for _ in 0..(if on("cipher") { scale } else { 0 }) {
        let key = bytes(&mut s, 32);
        let n8 = bytes(&mut s, 8);
        let n12 = bytes(&mut s, 12);
        let n24 = bytes(&mut s, 24);
        macro_rules! run {
            ($T:ty, $nonce:expr, $name:expr, $pos:expr) => {{
                let mut c = <$T>::new(GenericArray::from_slice(&key), GenericArray::from_slice($nonce));
                let mut buf = bytes(&mut s, 37 + 330);
                c.apply_keystream(&mut buf[..37]);
                c.seek($pos);
                c.apply_keystream(&mut buf[37..]);
                let p: u128 = c.current_pos();
                out($name, fold(&buf) ^ (p as u64) ^ ((p >> 64) as u64));
            }};
        }
        run!(ChaCha20, &n8, "chacha20", 0x3f_ffff_ff70u64);
        run!(ChaCha8, &n8, "chacha8", 70u64);
        run!(ChaCha12, &n8, "chacha12", 0xffff_ffff_ffff_ff00u64);
        run!(Ietf, &n12, "ietf", 0x3f_ffff_fe30u64);
        run!(XChaCha20, &n24, "xchacha20", 1u64);
        run!(XChaCha8, &n24, "xchacha8", 0x40_0000_0040u64);
        // the 4-block path starting exactly 1, 2, 3, 4 blocks before the low counter word wraps (block-aligned seek: no lazy
        // single block first), so that the carry falls between every pair of lanes
        for k in 1u64..=4 {
            run!(ChaCha20, &n8, "chacha20@carry", ((1u64 << 32) - k) * 64);
            run!(XChaCha20, &n24, "xchacha20@carry", ((1u64 << 32) - k) * 64);
            run!(ChaCha8, &n8, "chacha8@carry", ((3u64 << 32) - k) * 64);
        }
    }
    // --- hashes and Threefish --------------------------------------------------------------------------------------
    for _ in 0..(if on("hash") { scale } else { 0 }) {
        for len in [0usize, 1, 55, 64, 111, 129] {
            let m = bytes(&mut s, len);
            out("blake224", fold(&Blake224::digest(&m)));
            out("blake256", fold(&Blake256::digest(&m)));
            out("blake384", fold(&Blake384::digest(&m)));
            out("blake512", fold(&Blake512::digest(&m)));
            out("skein256", fold(&Skein256::<U32>::digest(&m)));
            out("skein512", fold(&Skein512::<U64>::digest(&m)));
            out("skein1024", fold(&Skein1024::<U128>::digest(&m)));
            if len % 2 == 1 || len == 64 {
                out("jh224", fold(&Jh224::digest(&m)));
                out("jh256", fold(&Jh256::digest(&m)));
                out("jh384", fold(&Jh384::digest(&m)));
                out("jh512", fold(&Jh512::digest(&m)));
            }
        }
        let k = bytes(&mut s, 128);
        let mut b = bytes(&mut s, 128);
        let f = Threefish256::with_tweak(GenericArray::from_slice(&k[..32]), splitmix(&mut s), splitmix(&mut s));
        f.encrypt_block(GenericArray::from_mut_slice(&mut b[..32]));
        out("threefish256", fold(&b[..32]));
        let f = Threefish512::new(GenericArray::from_slice(&k[..64]));
        f.decrypt_block(GenericArray::from_mut_slice(&mut b[..64]));
        out("threefish512", fold(&b[..64]));
        let f = Threefish1024::with_tweak(GenericArray::from_slice(&k), 1, 2);
        f.encrypt_block(GenericArray::from_mut_slice(&mut b));
        out("threefish1024", fold(&b));
    }
    // --- length counters next to 2^32 bits (hook H2): what a host with a narrower usize must still get right -------------
    #[cfg(cryptocorrosion_verif)]
    if on("counters") {
        for round in 0..scale {
            // JH: 2^29 bytes = 2^32 bits; BLAKE-256: 2^32 bits; Skein: 2^32 bytes - reached by a jump, then crossed by update
            // and by the padding, block-aligned and not
            for delta in [0u64, 64, 128] {
                for tail in [0usize, 5, 64, 67, 130] {
                    let pre = bytes(&mut s, 70 + round as usize);
                    let post = bytes(&mut s, tail);
                    let mut h = Jh256::default();
                    digest::Digest::update(&mut h, &pre);
                    let buffered = (pre.len() % 64) as u128;
                    h.verif_set_counter((1u128 << 29) - delta as u128 + buffered);
                    digest::Digest::update(&mut h, &post);
                    out("jh256@2^32bits", fold(&h.finalize()));
                    let mut h = Jh512::default();
                    digest::Digest::update(&mut h, &pre);
                    h.verif_set_counter((1u128 << 29) - delta as u128 + buffered);
                    digest::Digest::update(&mut h, &post);
                    out("jh512@2^32bits", fold(&h.finalize()));
                    let mut h = Blake256::default();
                    digest::Digest::update(&mut h, &pre);
                    h.verif_set_counter(((1u128 << 29) - delta as u128) * 8);
                    digest::Digest::update(&mut h, &post);
                    out("blake256@2^32bits", fold(&h.finalize()));
                    let mut h = Skein512::<U64>::default();
                    digest::Digest::update(&mut h, &pre);
                    h.verif_set_counter((1u128 << 32) - delta as u128);
                    digest::Digest::update(&mut h, &post);
                    out("skein512@2^32bytes", fold(&h.finalize()));
                }
            }
        }
    }
    // --- programs of vector operations on this host's machine (the generic backend on a foreign host / under Miri, SSE2
    //     natively): byte-for-byte the same register files as on every other host ---------------------------------------
    if on("vecops") {
        let mut regs: vecops_core::Regs = [[0u8; 64]; 4];
        for r in regs.iter_mut() {
            r.copy_from_slice(&bytes(&mut s, 64));
        }
        for _ in 0..(150 * scale) {
            let ty = (splitmix(&mut s) % 10) as usize;
            let group = (splitmix(&mut s) % 12) as usize;
            let k = (splitmix(&mut s) % 8) as u32;
            let imm = (splitmix(&mut s) % 128) as u32; // in-range lane indices only: a refusal would end the program
            let (dst, ia, ib) = ((splitmix(&mut s) % 4) as usize, (splitmix(&mut s) % 4) as usize, (splitmix(&mut s) % 4) as usize);
            #[cfg(all(target_arch = "x86_64", any(not(miri), cryptocorrosion_verif_x86_miri)))]
            unsafe {
                use ppv_lite86::Machine;
                use ppv_lite86::x86_64::{AVX, AVX2, SSE2, SSE41, SSSE3};
                // the newest Machine this (simulated) CPU has - natively, without target features, that is SSE2
                if cfg!(target_feature = "avx2") {
                    vecops_core::exec(AVX2::instance(), ty, group, k, imm, &mut regs, dst, ia, ib);
                } else if cfg!(target_feature = "avx") {
                    vecops_core::exec(AVX::instance(), ty, group, k, imm, &mut regs, dst, ia, ib);
                } else if cfg!(target_feature = "sse4.1") {
                    vecops_core::exec(SSE41::instance(), ty, group, k, imm, &mut regs, dst, ia, ib);
                } else if cfg!(target_feature = "ssse3") {
                    vecops_core::exec(SSSE3::instance(), ty, group, k, imm, &mut regs, dst, ia, ib);
                } else {
                    vecops_core::exec(SSE2::instance(), ty, group, k, imm, &mut regs, dst, ia, ib);
                }
            }
            #[cfg(not(all(target_arch = "x86_64", any(not(miri), cryptocorrosion_verif_x86_miri))))]
            unsafe {
                use ppv_lite86::Machine;
                vecops_core::exec(ppv_lite86::generic::GenericMachine::instance(), ty, group, k, imm, &mut regs, dst, ia, ib);
            }
            let flat: Vec<u8> = regs.iter().flat_map(|r| r.iter().copied()).collect();
            out(&format!("vecops.{}", vecops_core::GROUPS[group]), fold(&flat));
        }
    }
    if on("vecopsb") {
        // byte-I/O programs: comparable between hosts of either byte order
        let mut regs: vecops_core::Regs = [[0u8; 64]; 4];
        for step in 0..(400 * scale) {
            if step % 8 == 0 {
                for r in regs.iter_mut() {
                    r.copy_from_slice(&bytes(&mut s, 64));
                }
            }
            let ty = (splitmix(&mut s) % 5) as usize;
            let group = (splitmix(&mut s) % 12) as usize;
            let k = (splitmix(&mut s) % 8) as u32;
            let imm = (splitmix(&mut s) % 128) as u32;
            let (dst, ia, ib) = ((splitmix(&mut s) % 4) as usize, (splitmix(&mut s) % 4) as usize, (splitmix(&mut s) % 4) as usize);
            #[cfg(all(target_arch = "x86_64", any(not(miri), cryptocorrosion_verif_x86_miri)))]
            unsafe {
                use ppv_lite86::Machine;
                use ppv_lite86::x86_64::{AVX, AVX2, SSE2, SSE41, SSSE3};
                // the newest Machine this (simulated) CPU has - natively, without target features, that is SSE2
                if cfg!(target_feature = "avx2") {
                    vecops_core::exec_bytes(AVX2::instance(), ty, group, k, imm, &mut regs, dst, ia, ib);
                } else if cfg!(target_feature = "avx") {
                    vecops_core::exec_bytes(AVX::instance(), ty, group, k, imm, &mut regs, dst, ia, ib);
                } else if cfg!(target_feature = "sse4.1") {
                    vecops_core::exec_bytes(SSE41::instance(), ty, group, k, imm, &mut regs, dst, ia, ib);
                } else if cfg!(target_feature = "ssse3") {
                    vecops_core::exec_bytes(SSSE3::instance(), ty, group, k, imm, &mut regs, dst, ia, ib);
                } else {
                    vecops_core::exec_bytes(SSE2::instance(), ty, group, k, imm, &mut regs, dst, ia, ib);
                }
            }
            #[cfg(not(all(target_arch = "x86_64", any(not(miri), cryptocorrosion_verif_x86_miri))))]
            unsafe {
                use ppv_lite86::Machine;
                vecops_core::exec_bytes(ppv_lite86::generic::GenericMachine::instance(), ty, group, k, imm, &mut regs, dst, ia, ib);
            }
            let flat: Vec<u8> = regs.iter().flat_map(|r| r.iter().copied()).collect();
            out(&format!("vecopsb.{}.{}", vecops_core::BYTE_TYPES[ty], vecops_core::GROUPS[group]), fold(&flat));
        }
    }
    if on("jh1") {
        out("jh256", fold(&Jh256::digest(b"abc")));
    }
    println!("DONE {}", line);
}
