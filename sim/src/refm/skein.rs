//! Threefish-256/512/1024 and Skein (simple hash, Skein 1.3) reference, written from the specification.
//! The byte position that enters the tweak is explicit so that the simulator can inject it.

const C240: u64 = 0x1BD1_1BDA_A9FC_1A22;

const R256: [[u32; 2]; 8] = [[14, 16], [52, 57], [23, 40], [5, 37], [25, 33], [46, 12], [58, 22], [32, 32]];
const R512: [[u32; 4]; 8] = [[46, 36, 19, 37], [33, 27, 14, 42], [17, 49, 36, 39], [44, 9, 54, 56], [39, 30, 34, 24], [13, 50, 10, 17], [25, 29, 39, 43], [8, 35, 56, 22]];
const R1024: [[u32; 8]; 8] = [
    [24, 13, 8, 47, 8, 17, 22, 37],
    [38, 19, 10, 55, 49, 18, 23, 52],
    [33, 4, 51, 13, 34, 41, 59, 17],
    [5, 20, 48, 41, 47, 28, 16, 25],
    [41, 9, 37, 31, 12, 47, 44, 30],
    [16, 34, 56, 51, 4, 53, 42, 41],
    [31, 44, 47, 46, 19, 42, 44, 25],
    [9, 48, 35, 52, 23, 31, 37, 20],
];
const P256: [usize; 4] = [0, 3, 2, 1];
const P512: [usize; 8] = [2, 1, 4, 7, 6, 5, 0, 3];
const P1024: [usize; 16] = [0, 9, 2, 13, 6, 11, 4, 15, 10, 7, 12, 3, 14, 5, 8, 1];

fn rot(nw: usize, d: usize, j: usize) -> u32 {
    match nw {
        4 => R256[d % 8][j],
        8 => R512[d % 8][j],
        _ => R1024[d % 8][j],
    }
}
fn perm(nw: usize, i: usize) -> usize {
    match nw {
        4 => P256[i],
        8 => P512[i],
        _ => P1024[i],
    }
}

/// Threefish encryption of one block (words), key words `k` (Nw), tweak (t0, t1)
pub fn threefish_encrypt(k: &[u64], t0: u64, t1: u64, block: &[u64]) -> Vec<u64> {
    let nw = k.len();
    let nr = if nw == 16 { 80 } else { 72 };
    let mut kk = [0u64; 17];
    kk[..nw].copy_from_slice(k);
    kk[nw] = k.iter().fold(C240, |a, b| a ^ b);
    let t = [t0, t1, t0 ^ t1];
    let subkey = |s: usize, i: usize| -> u64 {
        let mut v = kk[(s + i) % (nw + 1)];
        if i == nw - 3 {
            v = v.wrapping_add(t[s % 3]);
        } else if i == nw - 2 {
            v = v.wrapping_add(t[(s + 1) % 3]);
        } else if i == nw - 1 {
            v = v.wrapping_add(s as u64);
        }
        v
    };
    let mut v = [0u64; 16];
    v[..nw].copy_from_slice(block);
    for d in 0..nr {
        let mut e = v;
        if d % 4 == 0 {
            for i in 0..nw {
                e[i] = e[i].wrapping_add(subkey(d / 4, i));
            }
        }
        let mut f = [0u64; 16];
        for j in 0..nw / 2 {
            let y0 = e[2 * j].wrapping_add(e[2 * j + 1]);
            let y1 = e[2 * j + 1].rotate_left(rot(nw, d, j)) ^ y0;
            f[2 * j] = y0;
            f[2 * j + 1] = y1;
        }
        for i in 0..nw {
            v[i] = f[perm(nw, i)];
        }
    }
    for i in 0..nw {
        v[i] = v[i].wrapping_add(subkey(nr / 4, i));
    }
    v[..nw].to_vec()
}

fn words(b: &[u8]) -> Vec<u64> {
    b.chunks(8)
        .map(|c| {
            let mut w = [0u8; 8];
            w.copy_from_slice(c);
            u64::from_le_bytes(w)
        })
        .collect()
}
fn bytes(w: &[u64]) -> Vec<u8> {
    let mut o = Vec::new();
    for x in w {
        o.extend_from_slice(&x.to_le_bytes());
    }
    o
}

const T_FIRST: u64 = 1 << 62;
const T_FINAL: u64 = 1 << 63;
const TYPE_CFG: u64 = 4;
const TYPE_MSG: u64 = 48;
const TYPE_OUT: u64 = 63;

/// one UBI block: G' = E_{G,T}(M) xor M, position is the 96-bit byte count up to and including this block
fn ubi_block(g: &[u64], block: &[u8], pos: u128, ty: u64, first: bool, last: bool) -> Vec<u64> {
    let t0 = pos as u64;
    let mut t1 = (pos >> 64) as u64 & 0xffff_ffff;
    t1 |= ty << 56;
    if first {
        t1 |= T_FIRST;
    }
    if last {
        t1 |= T_FINAL;
    }
    let m = words(block);
    let c = threefish_encrypt(g, t0, t1, &m);
    c.iter().zip(m.iter()).map(|(a, b)| a ^ b).collect()
}

#[derive(Clone)]
pub struct Skein {
    pub state_bytes: usize,
    pub out_bytes: usize,
    g: Vec<u64>,
    buf: Vec<u8>,
    /// message bytes processed in compressed blocks so far (explicit: can be injected)
    pub pos: u128,
    first: bool,
}

impl Skein {
    pub fn new(state_bytes: usize, out_bytes: usize) -> Skein {
        let nw = state_bytes / 8;
        let mut cfg = vec![0u8; state_bytes];
        cfg[0..4].copy_from_slice(b"SHA3");
        cfg[4..8].copy_from_slice(&1u32.to_le_bytes());
        cfg[8..16].copy_from_slice(&((out_bytes as u64) * 8).to_le_bytes());
        let g = ubi_block(&vec![0u64; nw], &cfg, 32, TYPE_CFG, true, true);
        Skein { state_bytes, out_bytes, g, buf: Vec::new(), pos: 0, first: true }
    }
    pub fn block(&self) -> usize {
        self.state_bytes
    }
    pub fn update(&mut self, data: &[u8]) {
        self.buf.extend_from_slice(data);
        let b = self.state_bytes;
        let mut off = 0;
        // keep the last (possibly full) block back: it must be flagged FINAL
        while self.buf.len() - off > b {
            self.pos = self.pos.wrapping_add(b as u128);
            self.g = ubi_block(&self.g, &self.buf[off..off + b], self.pos, TYPE_MSG, self.first, false);
            self.first = false;
            off += b;
        }
        self.buf.drain(..off);
    }
    pub fn finalize(mut self) -> Vec<u8> {
        let b = self.state_bytes;
        let n = self.buf.len();
        let mut last = self.buf.clone();
        last.resize(b, 0);
        self.pos = self.pos.wrapping_add(n as u128);
        self.g = ubi_block(&self.g, &last, self.pos, TYPE_MSG, self.first, true);
        let mut out = Vec::new();
        let mut ctr = 0u64;
        while out.len() < self.out_bytes {
            let mut blk = vec![0u8; b];
            blk[..8].copy_from_slice(&ctr.to_le_bytes());
            let o = ubi_block(&self.g, &blk, 8, TYPE_OUT, true, true);
            out.extend_from_slice(&bytes(&o));
            ctr += 1;
        }
        out.truncate(self.out_bytes);
        out
    }
    pub fn digest(state_bytes: usize, out_bytes: usize, data: &[u8]) -> Vec<u8> {
        let mut h = Skein::new(state_bytes, out_bytes);
        h.update(data);
        h.finalize()
    }
}
