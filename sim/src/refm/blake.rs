//! BLAKE-224/256/384/512 reference (SHA-3 final-round specification), written from the specification;
//! the bit counter is explicit so that the simulator can inject it. Shares no code with the repository.

const IV256: [u32; 8] = [0x6A09E667, 0xBB67AE85, 0x3C6EF372, 0xA54FF53A, 0x510E527F, 0x9B05688C, 0x1F83D9AB, 0x5BE0CD19];
const IV224: [u32; 8] = [0xC1059ED8, 0x367CD507, 0x3070DD17, 0xF70E5939, 0xFFC00B31, 0x68581511, 0x64F98FA7, 0xBEFA4FA4];
const IV512: [u64; 8] = [
    0x6A09E667F3BCC908, 0xBB67AE8584CAA73B, 0x3C6EF372FE94F82B, 0xA54FF53A5F1D36F1, 0x510E527FADE682D1, 0x9B05688C2B3E6C1F, 0x1F83D9ABFB41BD6B, 0x5BE0CD19137E2179,
];
const IV384: [u64; 8] = [
    0xCBBB9D5DC1059ED8, 0x629A292A367CD507, 0x9159015A3070DD17, 0x152FECD8F70E5939, 0x67332667FFC00B31, 0x8EB44A8768581511, 0xDB0C2E0D64F98FA7, 0x47B5481DBEFA4FA4,
];
const C32: [u32; 16] = [
    0x243F6A88, 0x85A308D3, 0x13198A2E, 0x03707344, 0xA4093822, 0x299F31D0, 0x082EFA98, 0xEC4E6C89, 0x452821E6, 0x38D01377, 0xBE5466CF, 0x34E90C6C, 0xC0AC29B7, 0xC97C50DD, 0x3F84D5B5, 0xB5470917,
];
const C64: [u64; 16] = [
    0x243F6A8885A308D3, 0x13198A2E03707344, 0xA4093822299F31D0, 0x082EFA98EC4E6C89, 0x452821E638D01377, 0xBE5466CF34E90C6C, 0xC0AC29B7C97C50DD, 0x3F84D5B5B5470917,
    0x9216D5D98979FB1B, 0xD1310BA698DFB5AC, 0x2FFD72DBD01ADFB7, 0xB8E1AFED6A267E96, 0xBA7C9045F12C7F99, 0x24A19947B3916CF7, 0x0801F2E2858EFC16, 0x636920D871574E69,
];
const SIGMA: [[usize; 16]; 10] = [
    [0, 1, 2, 3, 4, 5, 6, 7, 8, 9, 10, 11, 12, 13, 14, 15],
    [14, 10, 4, 8, 9, 15, 13, 6, 1, 12, 0, 2, 11, 7, 5, 3],
    [11, 8, 12, 0, 5, 2, 15, 13, 10, 14, 3, 6, 7, 1, 9, 4],
    [7, 9, 3, 1, 13, 12, 11, 14, 2, 6, 5, 10, 4, 0, 15, 8],
    [9, 0, 5, 7, 2, 4, 10, 15, 14, 1, 11, 12, 6, 8, 3, 13],
    [2, 12, 6, 10, 0, 11, 8, 3, 4, 13, 7, 5, 15, 14, 1, 9],
    [12, 5, 1, 15, 14, 13, 4, 10, 0, 7, 6, 3, 9, 2, 8, 11],
    [13, 11, 7, 14, 12, 1, 3, 9, 5, 0, 15, 4, 8, 6, 2, 10],
    [6, 15, 14, 9, 11, 3, 0, 8, 12, 2, 13, 7, 1, 4, 10, 5],
    [10, 2, 8, 4, 7, 6, 1, 5, 15, 11, 9, 14, 3, 12, 13, 0],
];

fn compress32(h: &mut [u32; 8], block: &[u8], t: u64) {
    let mut m = [0u32; 16];
    for i in 0..16 {
        m[i] = u32::from_be_bytes([block[4 * i], block[4 * i + 1], block[4 * i + 2], block[4 * i + 3]]);
    }
    let (t0, t1) = (t as u32, (t >> 32) as u32);
    let mut v = [0u32; 16];
    v[..8].copy_from_slice(h);
    for i in 0..4 {
        v[8 + i] = C32[i];
    }
    v[12] = t0 ^ C32[4];
    v[13] = t0 ^ C32[5];
    v[14] = t1 ^ C32[6];
    v[15] = t1 ^ C32[7];
    let g = |v: &mut [u32; 16], a: usize, b: usize, c: usize, d: usize, r: usize, i: usize| {
        let s = &SIGMA[r % 10];
        v[a] = v[a].wrapping_add(v[b]).wrapping_add(m[s[2 * i]] ^ C32[s[2 * i + 1]]);
        v[d] = (v[d] ^ v[a]).rotate_right(16);
        v[c] = v[c].wrapping_add(v[d]);
        v[b] = (v[b] ^ v[c]).rotate_right(12);
        v[a] = v[a].wrapping_add(v[b]).wrapping_add(m[s[2 * i + 1]] ^ C32[s[2 * i]]);
        v[d] = (v[d] ^ v[a]).rotate_right(8);
        v[c] = v[c].wrapping_add(v[d]);
        v[b] = (v[b] ^ v[c]).rotate_right(7);
    };
    for r in 0..14 {
        g(&mut v, 0, 4, 8, 12, r, 0);
        g(&mut v, 1, 5, 9, 13, r, 1);
        g(&mut v, 2, 6, 10, 14, r, 2);
        g(&mut v, 3, 7, 11, 15, r, 3);
        g(&mut v, 0, 5, 10, 15, r, 4);
        g(&mut v, 1, 6, 11, 12, r, 5);
        g(&mut v, 2, 7, 8, 13, r, 6);
        g(&mut v, 3, 4, 9, 14, r, 7);
    }
    for i in 0..8 {
        h[i] ^= v[i] ^ v[i + 8];
    }
}

fn compress64(h: &mut [u64; 8], block: &[u8], t: u128) {
    let mut m = [0u64; 16];
    for i in 0..16 {
        let mut w = [0u8; 8];
        w.copy_from_slice(&block[8 * i..8 * i + 8]);
        m[i] = u64::from_be_bytes(w);
    }
    let (t0, t1) = (t as u64, (t >> 64) as u64);
    let mut v = [0u64; 16];
    v[..8].copy_from_slice(h);
    for i in 0..4 {
        v[8 + i] = C64[i];
    }
    v[12] = t0 ^ C64[4];
    v[13] = t0 ^ C64[5];
    v[14] = t1 ^ C64[6];
    v[15] = t1 ^ C64[7];
    let g = |v: &mut [u64; 16], a: usize, b: usize, c: usize, d: usize, r: usize, i: usize| {
        let s = &SIGMA[r % 10];
        v[a] = v[a].wrapping_add(v[b]).wrapping_add(m[s[2 * i]] ^ C64[s[2 * i + 1]]);
        v[d] = (v[d] ^ v[a]).rotate_right(32);
        v[c] = v[c].wrapping_add(v[d]);
        v[b] = (v[b] ^ v[c]).rotate_right(25);
        v[a] = v[a].wrapping_add(v[b]).wrapping_add(m[s[2 * i + 1]] ^ C64[s[2 * i]]);
        v[d] = (v[d] ^ v[a]).rotate_right(16);
        v[c] = v[c].wrapping_add(v[d]);
        v[b] = (v[b] ^ v[c]).rotate_right(11);
    };
    for r in 0..16 {
        g(&mut v, 0, 4, 8, 12, r, 0);
        g(&mut v, 1, 5, 9, 13, r, 1);
        g(&mut v, 2, 6, 10, 14, r, 2);
        g(&mut v, 3, 7, 11, 15, r, 3);
        g(&mut v, 0, 5, 10, 15, r, 4);
        g(&mut v, 1, 6, 11, 12, r, 5);
        g(&mut v, 2, 7, 8, 13, r, 6);
        g(&mut v, 3, 4, 9, 14, r, 7);
    }
    for i in 0..8 {
        h[i] ^= v[i] ^ v[i + 8];
    }
}

#[derive(Clone)]
pub struct Blake {
    pub bits: usize,
    h32: [u32; 8],
    h64: [u64; 8],
    buf: Vec<u8>,
    /// message bits compressed so far (explicit: can be injected)
    pub t: u128,
}

impl Blake {
    pub fn new(bits: usize) -> Blake {
        Blake {
            bits,
            h32: if bits == 224 { IV224 } else { IV256 },
            h64: if bits == 384 { IV384 } else { IV512 },
            buf: Vec::new(),
            t: 0,
        }
    }
    pub fn block(&self) -> usize {
        if self.bits <= 256 {
            64
        } else {
            128
        }
    }
    fn wide(&self) -> bool {
        self.bits > 256
    }
    fn compress(&mut self, block: &[u8], t: u128) {
        if self.wide() {
            compress64(&mut self.h64, block, t)
        } else {
            compress32(&mut self.h32, block, t as u64)
        }
    }
    pub fn update(&mut self, data: &[u8]) {
        self.buf.extend_from_slice(data);
        let b = self.block();
        let mut off = 0;
        while self.buf.len() - off >= b {
            self.t = self.t.wrapping_add(8 * b as u128);
            let blk: Vec<u8> = self.buf[off..off + b].to_vec();
            let t = self.t;
            self.compress(&blk, t);
            off += b;
        }
        self.buf.drain(..off);
    }
    pub fn finalize(mut self) -> Vec<u8> {
        let b = self.block();
        let lenbytes = b / 8; // 8 or 16
        let rem = self.buf.len();
        let total_bits = self.t.wrapping_add(8 * rem as u128);
        let marker: u8 = if self.bits == 256 || self.bits == 512 { 0x01 } else { 0x00 };
        let mut len_field = vec![0u8; lenbytes];
        if lenbytes == 8 {
            len_field.copy_from_slice(&(total_bits as u64).to_be_bytes());
        } else {
            len_field.copy_from_slice(&total_bits.to_be_bytes());
        }
        // padded = msg || 1 0* marker-bit || len ; minimal number of zeros
        let mut pad = self.buf.clone();
        pad.push(0x80);
        while (pad.len() + lenbytes) % b != 0 {
            pad.push(0);
        }
        let n = pad.len();
        pad[n - 1] |= marker;
        pad.extend_from_slice(&len_field);
        let nblocks = pad.len() / b;
        for i in 0..nblocks {
            // counter: message bits up to and including this block; 0 if the block holds no message bits
            let t = if i == 0 && rem > 0 {
                total_bits
            } else if i == 0 && rem == 0 {
                0
            } else {
                // second padding block never contains message bits
                0
            };
            let blk = pad[i * b..(i + 1) * b].to_vec();
            self.compress(&blk, t);
        }
        let mut out = Vec::new();
        if self.wide() {
            for w in self.h64.iter() {
                out.extend_from_slice(&w.to_be_bytes());
            }
        } else {
            for w in self.h32.iter() {
                out.extend_from_slice(&w.to_be_bytes());
            }
        }
        out.truncate(self.bits / 8);
        out
    }
    pub fn digest(bits: usize, data: &[u8]) -> Vec<u8> {
        let mut h = Blake::new(bits);
        h.update(data);
        h.finalize()
    }
}
