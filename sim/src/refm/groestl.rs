//! Groestl-224/256/384/512 reference: byte-matrix model written from the SHA-3 final-round specification;
//! the block counter that enters the padding is explicit so that the simulator can inject it.

fn gf_mul2(x: u8) -> u8 {
    (x << 1) ^ if x & 0x80 != 0 { 0x1b } else { 0 }
}
fn gf_mul(x: u8, k: u8) -> u8 {
    let x2 = gf_mul2(x);
    let x4 = gf_mul2(x2);
    match k {
        2 => x2,
        3 => x2 ^ x,
        4 => x4,
        5 => x4 ^ x,
        7 => x4 ^ x2 ^ x,
        _ => unreachable!(),
    }
}

/// AES S-box generated from the definition: multiplicative inverse in GF(2^8) followed by the affine map
fn sbox_table() -> [u8; 256] {
    let mut t = [0u8; 256];
    for x in 0..256usize {
        // inverse by exhaustive search (start-up cost only)
        let mut inv = 0u8;
        if x != 0 {
            for y in 1..256usize {
                // multiply x*y in GF(2^8)
                let (mut a, mut b, mut p) = (x as u8, y as u8, 0u8);
                for _ in 0..8 {
                    if b & 1 != 0 {
                        p ^= a;
                    }
                    a = gf_mul2(a);
                    b >>= 1;
                }
                if p == 1 {
                    inv = y as u8;
                    break;
                }
            }
        }
        let mut s = inv;
        let mut r = inv;
        for _ in 0..4 {
            r = r.rotate_left(1);
            s ^= r;
        }
        t[x] = s ^ 0x63;
    }
    t
}

#[derive(Clone)]
pub struct Groestl {
    pub bits: usize,
    cols: usize,
    rounds: usize,
    h: Vec<u8>, // column-major: byte i -> row i % 8, column i / 8
    buf: Vec<u8>,
    /// blocks compressed so far (explicit: can be injected)
    pub blocks: u64,
    sbox: [u8; 256],
}

const SHIFT_P512: [usize; 8] = [0, 1, 2, 3, 4, 5, 6, 7];
const SHIFT_Q512: [usize; 8] = [1, 3, 5, 7, 0, 2, 4, 6];
const SHIFT_P1024: [usize; 8] = [0, 1, 2, 3, 4, 5, 6, 11];
const SHIFT_Q1024: [usize; 8] = [1, 3, 5, 11, 0, 2, 4, 6];
const MIX: [u8; 8] = [2, 2, 3, 4, 5, 3, 5, 7];

impl Groestl {
    pub fn new(bits: usize) -> Groestl {
        let cols = if bits <= 256 { 8 } else { 16 };
        let mut h = vec![0u8; cols * 8];
        let n = h.len();
        h[n - 2] = (bits >> 8) as u8;
        h[n - 1] = bits as u8;
        Groestl { bits, cols, rounds: if bits <= 256 { 10 } else { 14 }, h, buf: Vec::new(), blocks: 0, sbox: sbox_table() }
    }
    pub fn block(&self) -> usize {
        self.cols * 8
    }
    fn perm(&self, x: &[u8], q: bool) -> Vec<u8> {
        let c = self.cols;
        let mut s: Vec<u8> = x.to_vec();
        let shifts = match (c, q) {
            (8, false) => SHIFT_P512,
            (8, true) => SHIFT_Q512,
            (_, false) => SHIFT_P1024,
            (_, true) => SHIFT_Q1024,
        };
        for r in 0..self.rounds {
            // AddRoundConstant
            for j in 0..c {
                if !q {
                    s[8 * j] ^= ((j as u8) << 4) ^ r as u8;
                } else {
                    for i in 0..8 {
                        s[8 * j + i] ^= 0xff;
                    }
                    s[8 * j + 7] ^= ((j as u8) << 4) ^ r as u8;
                }
            }
            // SubBytes
            for b in s.iter_mut() {
                *b = self.sbox[*b as usize];
            }
            // ShiftBytes: row i rotated left by shifts[i]
            let mut t = vec![0u8; s.len()];
            for i in 0..8 {
                for j in 0..c {
                    t[8 * j + i] = s[8 * ((j + shifts[i]) % c) + i];
                }
            }
            // MixBytes
            for j in 0..c {
                let col: Vec<u8> = t[8 * j..8 * j + 8].to_vec();
                for i in 0..8 {
                    let mut acc = 0u8;
                    for k in 0..8 {
                        acc ^= gf_mul(col[(i + k) % 8], MIX[k]);
                    }
                    s[8 * j + i] = acc;
                }
            }
        }
        s
    }
    fn compress(&mut self, m: &[u8]) {
        let x: Vec<u8> = self.h.iter().zip(m).map(|(a, b)| a ^ b).collect();
        let p = self.perm(&x, false);
        let q = self.perm(m, true);
        for i in 0..self.h.len() {
            self.h[i] ^= p[i] ^ q[i];
        }
    }
    pub fn update(&mut self, data: &[u8]) {
        self.buf.extend_from_slice(data);
        let b = self.block();
        let mut off = 0;
        while self.buf.len() - off >= b {
            let blk = self.buf[off..off + b].to_vec();
            self.compress(&blk);
            self.blocks = self.blocks.wrapping_add(1);
            off += b;
        }
        self.buf.drain(..off);
    }
    pub fn finalize(mut self) -> Vec<u8> {
        let b = self.block();
        let mut pad = self.buf.clone();
        pad.push(0x80);
        while (pad.len() + 8) % b != 0 {
            pad.push(0);
        }
        let nblocks = (pad.len() + 8) / b;
        let total = self.blocks.wrapping_add(nblocks as u64);
        pad.extend_from_slice(&total.to_be_bytes());
        for i in 0..nblocks {
            let blk = pad[i * b..(i + 1) * b].to_vec();
            self.compress(&blk);
        }
        let p = self.perm(&self.h.clone(), false);
        let out: Vec<u8> = self.h.iter().zip(p.iter()).map(|(a, b)| a ^ b).collect();
        out[out.len() - self.bits / 8..].to_vec()
    }
    pub fn digest(bits: usize, data: &[u8]) -> Vec<u8> {
        let mut h = Groestl::new(bits);
        h.update(data);
        h.finalize()
    }
}
