//! JH-224/256/384/512 reference: the nibble-oriented definition of the specification (42 rounds of R8 on
//! 256 four-bit elements, round constants generated with R6 from the fractional part of sqrt(2)).
//! The message length that enters the padding is explicit so that the simulator can inject it.

const S: [[u8; 16]; 2] = [[9, 0, 4, 11, 13, 12, 3, 15, 1, 10, 2, 6, 7, 5, 8, 14], [3, 12, 6, 13, 5, 7, 1, 9, 15, 2, 0, 4, 11, 10, 14, 8]];

const RC0: [u8; 32] = [
    0x6a, 0x09, 0xe6, 0x67, 0xf3, 0xbc, 0xc9, 0x08, 0xb2, 0xfb, 0x13, 0x66, 0xea, 0x95, 0x7d, 0x3e, 0x3a, 0xde, 0xc1, 0x75, 0x12, 0x77, 0x50, 0x99, 0xda, 0x2f, 0x59, 0x0b, 0x06, 0x67, 0x32, 0x2a,
];

#[inline]
fn mul2(a: u8) -> u8 {
    // multiplication by x in GF(2^4) modulo x^4 + x + 1
    ((a << 1) ^ (a >> 3) ^ ((a >> 2) & 2)) & 0xf
}

#[inline]
fn l(a: &mut u8, b: &mut u8) {
    *b ^= mul2(*a);
    *a ^= mul2(*b);
}

fn r8(a: &mut [u8; 256], rc: &[u8; 64]) {
    let mut tem = [0u8; 256];
    for i in 0..256 {
        let bit = (rc[i >> 2] >> (3 - (i & 3))) & 1;
        tem[i] = S[bit as usize][a[i] as usize];
    }
    let mut i = 0;
    while i < 256 {
        let (mut x, mut y) = (tem[i], tem[i + 1]);
        l(&mut x, &mut y);
        tem[i] = x;
        tem[i + 1] = y;
        i += 2;
    }
    // pi_8
    let mut i = 0;
    while i < 256 {
        tem.swap(i + 2, i + 3);
        i += 4;
    }
    // P'_8
    for i in 0..128 {
        a[i] = tem[i << 1];
        a[i + 128] = tem[(i << 1) + 1];
    }
    // phi_8
    let mut i = 128;
    while i < 256 {
        a.swap(i, i + 1);
        i += 2;
    }
}

fn next_rc(rc: &mut [u8; 64]) {
    let mut tem = [0u8; 64];
    for i in 0..64 {
        tem[i] = S[0][rc[i] as usize];
    }
    let mut i = 0;
    while i < 64 {
        let (mut x, mut y) = (tem[i], tem[i + 1]);
        l(&mut x, &mut y);
        tem[i] = x;
        tem[i + 1] = y;
        i += 2;
    }
    let mut i = 0;
    while i < 64 {
        tem.swap(i + 2, i + 3);
        i += 4;
    }
    for i in 0..32 {
        rc[i] = tem[i << 1];
        rc[i + 32] = tem[(i << 1) + 1];
    }
    let mut i = 32;
    while i < 64 {
        rc.swap(i, i + 1);
        i += 2;
    }
}

fn round_constants() -> Vec<[u8; 64]> {
    let mut rc = [0u8; 64];
    for i in 0..64 {
        rc[i] = if i % 2 == 0 { RC0[i / 2] >> 4 } else { RC0[i / 2] & 0xf };
    }
    let mut v = Vec::with_capacity(42);
    for _ in 0..42 {
        v.push(rc);
        next_rc(&mut rc);
    }
    v
}

fn e8(h: &mut [u8; 128], rcs: &[[u8; 64]]) {
    let mut tem = [0u8; 256];
    for i in 0..256 {
        let bit = |off: usize| (h[(i + off) >> 3] >> (7 - (i & 7))) & 1;
        tem[i] = (bit(0) << 3) | (bit(256) << 2) | (bit(512) << 1) | bit(768);
    }
    let mut a = [0u8; 256];
    for i in 0..128 {
        a[i << 1] = tem[i];
        a[(i << 1) + 1] = tem[i + 128];
    }
    for r in 0..42 {
        r8(&mut a, &rcs[r]);
    }
    for i in 0..128 {
        tem[i] = a[i << 1];
        tem[i + 128] = a[(i << 1) + 1];
    }
    *h = [0u8; 128];
    for i in 0..256 {
        let t = tem[i];
        h[i >> 3] |= ((t >> 3) & 1) << (7 - (i & 7));
        h[(i + 256) >> 3] |= ((t >> 2) & 1) << (7 - (i & 7));
        h[(i + 512) >> 3] |= ((t >> 1) & 1) << (7 - (i & 7));
        h[(i + 768) >> 3] |= (t & 1) << (7 - (i & 7));
    }
}

#[derive(Clone)]
pub struct Jh {
    pub bits: usize,
    h: [u8; 128],
    buf: Vec<u8>,
    /// bytes compressed so far (explicit: can be injected); total length = compressed + buffered
    pub compressed: u128,
    rcs: Vec<[u8; 64]>,
}

impl Jh {
    pub fn new(bits: usize) -> Jh {
        let rcs = round_constants();
        let mut h = [0u8; 128];
        h[0] = (bits >> 8) as u8;
        h[1] = bits as u8;
        let mut j = Jh { bits, h, buf: Vec::new(), compressed: 0, rcs };
        j.f8(&[0u8; 64]);
        j
    }
    fn f8(&mut self, m: &[u8]) {
        for i in 0..64 {
            self.h[i] ^= m[i];
        }
        let rcs = std::mem::take(&mut self.rcs);
        e8(&mut self.h, &rcs);
        self.rcs = rcs;
        for i in 0..64 {
            self.h[64 + i] ^= m[i];
        }
    }
    pub fn update(&mut self, data: &[u8]) {
        self.buf.extend_from_slice(data);
        let mut off = 0;
        while self.buf.len() - off >= 64 {
            let blk = self.buf[off..off + 64].to_vec();
            self.f8(&blk);
            self.compressed = self.compressed.wrapping_add(64);
            off += 64;
        }
        self.buf.drain(..off);
    }
    pub fn finalize(mut self) -> Vec<u8> {
        let total_bits: u128 = (self.compressed.wrapping_add(self.buf.len() as u128)).wrapping_mul(8);
        let len_be = total_bits.to_be_bytes();
        if self.buf.is_empty() {
            let mut blk = [0u8; 64];
            blk[0] = 0x80;
            blk[48..].copy_from_slice(&len_be);
            self.f8(&blk);
        } else {
            let mut blk = [0u8; 64];
            blk[..self.buf.len()].copy_from_slice(&self.buf);
            blk[self.buf.len()] = 0x80;
            self.f8(&blk);
            let mut blk = [0u8; 64];
            blk[48..].copy_from_slice(&len_be);
            self.f8(&blk);
        }
        self.h[128 - self.bits / 8..].to_vec()
    }
    pub fn digest(bits: usize, data: &[u8]) -> Vec<u8> {
        let mut h = Jh::new(bits);
        h.update(data);
        h.finalize()
    }
}
