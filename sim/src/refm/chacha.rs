//! ChaCha reference model, written from Bernstein's ChaCha paper, RFC 7539 and draft-irtf-cfrg-xchacha.
//! Shares no code with the repository under test.

const SIGMA: [u32; 4] = [0x6170_7865, 0x3320_646e, 0x7962_2d32, 0x6b20_6574];

#[inline]
fn qr(x: &mut [u32; 16], a: usize, b: usize, c: usize, d: usize) {
    x[a] = x[a].wrapping_add(x[b]);
    x[d] = (x[d] ^ x[a]).rotate_left(16);
    x[c] = x[c].wrapping_add(x[d]);
    x[b] = (x[b] ^ x[c]).rotate_left(12);
    x[a] = x[a].wrapping_add(x[b]);
    x[d] = (x[d] ^ x[a]).rotate_left(8);
    x[c] = x[c].wrapping_add(x[d]);
    x[b] = (x[b] ^ x[c]).rotate_left(7);
}

fn core(input: &[u32; 16], double_rounds: u32) -> [u32; 16] {
    let mut x = *input;
    for _ in 0..double_rounds {
        qr(&mut x, 0, 4, 8, 12);
        qr(&mut x, 1, 5, 9, 13);
        qr(&mut x, 2, 6, 10, 14);
        qr(&mut x, 3, 7, 11, 15);
        qr(&mut x, 0, 5, 10, 15);
        qr(&mut x, 1, 6, 11, 12);
        qr(&mut x, 2, 7, 8, 13);
        qr(&mut x, 3, 4, 9, 14);
    }
    x
}

pub fn key_words(key: &[u8]) -> [u32; 8] {
    let mut k = [0u32; 8];
    for i in 0..8 {
        k[i] = u32::from_le_bytes([key[4 * i], key[4 * i + 1], key[4 * i + 2], key[4 * i + 3]]);
    }
    k
}

/// One block from the 16-word input state: words 0..4 constants, 4..12 key, 12..16 `d`.
pub fn block(key: &[u32; 8], d: &[u32; 4], double_rounds: u32) -> [u8; 64] {
    let mut s = [0u32; 16];
    s[..4].copy_from_slice(&SIGMA);
    s[4..12].copy_from_slice(key);
    s[12..].copy_from_slice(d);
    let x = core(&s, double_rounds);
    let mut out = [0u8; 64];
    for i in 0..16 {
        out[4 * i..4 * i + 4].copy_from_slice(&x[i].wrapping_add(s[i]).to_le_bytes());
    }
    out
}

/// HChaCha: words 0..4 and 12..16 of the core without feed-forward.
pub fn hchacha(key: &[u32; 8], nonce16: &[u8], double_rounds: u32) -> [u32; 8] {
    let mut s = [0u32; 16];
    s[..4].copy_from_slice(&SIGMA);
    s[4..12].copy_from_slice(key);
    for i in 0..4 {
        s[12 + i] = u32::from_le_bytes([nonce16[4 * i], nonce16[4 * i + 1], nonce16[4 * i + 2], nonce16[4 * i + 3]]);
    }
    let x = core(&s, double_rounds);
    [x[0], x[1], x[2], x[3], x[12], x[13], x[14], x[15]]
}

#[derive(Clone, Copy, Debug, PartialEq, Eq, PartialOrd, Ord)]
pub enum Kind {
    ChaCha8,
    ChaCha12,
    ChaCha20,
    Ietf,
    XChaCha8,
    XChaCha12,
    XChaCha20,
}

pub const KINDS: [Kind; 7] = [Kind::ChaCha8, Kind::ChaCha12, Kind::ChaCha20, Kind::Ietf, Kind::XChaCha8, Kind::XChaCha12, Kind::XChaCha20];

impl Kind {
    pub fn name(self) -> &'static str {
        match self {
            Kind::ChaCha8 => "ChaCha8",
            Kind::ChaCha12 => "ChaCha12",
            Kind::ChaCha20 => "ChaCha20",
            Kind::Ietf => "Ietf",
            Kind::XChaCha8 => "XChaCha8",
            Kind::XChaCha12 => "XChaCha12",
            Kind::XChaCha20 => "XChaCha20",
        }
    }
    pub fn from_name(s: &str) -> Option<Kind> {
        KINDS.iter().copied().find(|k| k.name() == s)
    }
    pub fn nonce_len(self) -> usize {
        match self {
            Kind::Ietf => 12,
            Kind::XChaCha8 | Kind::XChaCha12 | Kind::XChaCha20 => 24,
            _ => 8,
        }
    }
    pub fn double_rounds(self) -> u32 {
        match self {
            Kind::ChaCha8 | Kind::XChaCha8 => 4,
            Kind::ChaCha12 | Kind::XChaCha12 => 6,
            _ => 10,
        }
    }
    /// keystream length in bytes, None = 2^64 blocks
    pub fn limit(self) -> Option<u128> {
        match self {
            Kind::Ietf => Some(1u128 << 38),
            _ => None,
        }
    }
    pub fn index(self) -> u64 {
        KINDS.iter().position(|k| *k == self).unwrap() as u64
    }
}

/// Keystream of one (variant, key, nonce) by absolute block index.
#[derive(Clone, Debug)]
pub struct Stream {
    pub kind: Kind,
    key: [u32; 8],
    /// nonce words in positions d[1..4] (d[1] only used by Ietf)
    n: [u32; 3],
}

impl Stream {
    pub fn new(kind: Kind, key: &[u8], nonce: &[u8]) -> Stream {
        assert_eq!(key.len(), 32);
        assert_eq!(nonce.len(), kind.nonce_len());
        let w = |b: &[u8]| u32::from_le_bytes([b[0], b[1], b[2], b[3]]);
        let k = key_words(key);
        match kind {
            Kind::Ietf => Stream { kind, key: k, n: [w(&nonce[0..4]), w(&nonce[4..8]), w(&nonce[8..12])] },
            Kind::ChaCha8 | Kind::ChaCha12 | Kind::ChaCha20 => Stream { kind, key: k, n: [0, w(&nonce[0..4]), w(&nonce[4..8])] },
            _ => {
                let sub = hchacha(&k, &nonce[..16], kind.double_rounds());
                Stream { kind, key: sub, n: [0, w(&nonce[16..20]), w(&nonce[20..24])] }
            }
        }
    }
    pub fn block(&self, index: u64) -> [u8; 64] {
        let d = match self.kind {
            Kind::Ietf => [index as u32, self.n[0], self.n[1], self.n[2]],
            _ => [index as u32, (index >> 32) as u32, self.n[1], self.n[2]],
        };
        block(&self.key, &d, self.kind.double_rounds())
    }
    /// keystream bytes [pos, pos+len)
    pub fn bytes(&self, pos: u128, len: usize) -> Vec<u8> {
        let mut out = Vec::with_capacity(len);
        let mut p = pos;
        let end = pos + len as u128;
        while p < end {
            let b = self.block((p / 64) as u64);
            let off = (p % 64) as usize;
            let take = ((end - p) as usize).min(64 - off);
            out.extend_from_slice(&b[off..off + take]);
            p += take as u128;
        }
        out
    }
}

fn unhex(s: &str) -> Vec<u8> {
    crate::kit::json::unhex(s)
}

/// Known-answer self-test against published vectors; Err = the oracle is wrong (harness error).
pub fn selftest() -> Result<u32, String> {
    let mut n = 0;
    // RFC 7539 2.3.2: block function, counter 1
    let key: Vec<u8> = (0u8..32).collect();
    let nonce = unhex("000000090000004a00000000");
    let s = Stream::new(Kind::Ietf, &key, &nonce);
    let want = unhex(
        "10f1e7e4d13b5915500fdd1fa32071c4c7d1f4c733c068030422aa9ac3d46c4ed2826446079faa0914c2d705d98b02a2b5129cd1de164eb9cbd083e8a2503c4e",
    );
    if s.block(1).to_vec() != want {
        return Err("chacha model: RFC 7539 2.3.2 block mismatch".into());
    }
    n += 1;
    // RFC 7539 2.4.2: encryption of the sunscreen text from counter 1
    let nonce = unhex("000000000000004a00000000");
    let s = Stream::new(Kind::Ietf, &key, &nonce);
    let pt = b"Ladies and Gentlemen of the class of '99: If I could offer you only one tip for the future, sunscreen would be it.";
    let ks = s.bytes(64, pt.len());
    let ct: Vec<u8> = pt.iter().zip(ks.iter()).map(|(a, b)| a ^ b).collect();
    let want = unhex("6e2e359a2568f98041ba0728dd0d6981e97e7aec1d4360c20a27afccfd9fae0bf91b65c5524733ab8f593dabcd62b3571639d624e65152ab8f530c359f0861d807ca0dbf500d6a6156a38e088a22b65e52bc514d16ccf806818ce91ab77937365af90bbf74a35be6b40b8eedf2785e42874d");
    if ct != want {
        return Err("chacha model: RFC 7539 2.4.2 mismatch".into());
    }
    n += 1;
    // draft-irtf-cfrg-xchacha 2.2.1: HChaCha20
    let nonce16 = unhex("000000090000004a0000000031415927");
    let sub = hchacha(&key_words(&key), &nonce16, 10);
    let mut subb = Vec::new();
    for w in sub.iter() {
        subb.extend_from_slice(&w.to_le_bytes());
    }
    if subb != unhex("82413b4227b27bfed30e42508a877d73a0f9e4d58a74a853c12ec41326d3ecdc") {
        return Err("chacha model: HChaCha20 vector mismatch".into());
    }
    n += 1;
    // XChaCha20 keystream vector carried by the c2-chacha test-suite (xchacha20_case_1; read as data)
    let key = unhex("82f411a074f656c66e7dbddb0a2c1b22760b9b2105f4ffdbb1d4b1e824e21def");
    let nonce = unhex("3b07ca6e729eb44a510b7a1be51847838a804f8b106b38bd");
    let s = Stream::new(Kind::XChaCha20, &key, &nonce);
    let want = unhex("201863970b8e081f4122addfdf32f6c03e48d9bc4e34a59654f49248b9be59d3eaa106ac3376e7e7d9d1251f2cbf61ef27000f3d19afb76b9c247151e7bc26467583f520518eccd2055ccd6cc8a195953d82a10c2065916778db35da2be44415d2f5efb0");
    if s.bytes(0, 100) != want {
        return Err("chacha model: XChaCha20 keystream vector mismatch".into());
    }
    n += 1;
    // ChaCha20 (64-bit counter) across the low counter word carry (chacha20_case_1 of the test-suite; read as data)
    let key = unhex("fa44478c59ca70538e3549096ce8b523232c50d9e8e8d10c203ef6c8d07098a5");
    let nonce = unhex("8d3a0d6d7827c007");
    let s = Stream::new(Kind::ChaCha20, &key, &nonce);
    let want = unhex("1546a547ff77c5c964e44fd039e913c6395c8f19d43efaa880750f6687b4e6e2d8f42f63546da2d133b5aa2f1ef3f218b6c72943089e4012210c2cbed0e8e93498a6825fc8ff7a504f26db33b6cbe36299436244c9b2eff88302c55933911b7d5dea75f2b6d4761ba44bb6f814c9879d2ba2ac8b178fa1104a368694872339738ffb960e33db39efb8eaef885b910eea078e7a1feb3f8185dafd1455b704d76da3a0ce4760741841217bba1e4ece760eaf68617133431feb806c061173af6b8b2a23be90c5d145cc258e3c119aab2800f0c7bc1959dae75481712cab731b7dfd783fa3a228f9968aaea68f36a92f43c9b523337a55b97bcaf5f5774447bf41e8");
    if s.bytes(0x3fffffff70, 256) != want {
        return Err("chacha model: ChaCha20 carry vector mismatch".into());
    }
    n += 1;
    // original-layout ChaCha20 with 64-bit counter: all-zero key/nonce (Bernstein / draft-strombergson TC1)
    let s = Stream::new(Kind::ChaCha20, &[0u8; 32], &[0u8; 8]);
    if s.bytes(0, 32) != unhex("76b8e0ada0f13d90405d6ae55386bd28bdd219b8a08ded1aa836efcc8b770dc7") {
        return Err("chacha model: ChaCha20 zero vector mismatch".into());
    }
    n += 1;
    let s = Stream::new(Kind::ChaCha8, &[0u8; 32], &[0u8; 8]);
    if s.bytes(0, 32) != unhex("3e00ef2f895f40d67f5bb8e81f09a5a12c840ec3ce9a7f3b181be188ef711a1e") {
        return Err("chacha model: ChaCha8 zero vector mismatch".into());
    }
    n += 1;
    let s = Stream::new(Kind::ChaCha12, &[0u8; 32], &[0u8; 8]);
    if s.bytes(0, 32) != unhex("9bf49a6a0755f953811fce125f2683d50429c3bb49e074147e0089a52eae155f") {
        return Err("chacha model: ChaCha12 zero vector mismatch".into());
    }
    n += 1;
    Ok(n)
}
