pub mod blake;
pub mod chacha;
pub mod groestl;
pub mod jh;
pub mod skein;

/// blobby reader (format of the KAT files in the repository; they are read as data only)
pub fn read_blb(path: &str) -> Result<Vec<Vec<u8>>, String> {
    let data = std::fs::read(path).map_err(|e| format!("{}: {}", path, e))?;
    if data.len() < 7 || &data[..6] != b"blobby" {
        return Err(format!("{}: not a blobby file", path));
    }
    let n = match data[6] {
        b'1' => 1,
        b'2' => 2,
        b'4' => 4,
        b'8' => 8,
        _ => return Err(format!("{}: bad index size", path)),
    };
    let mut out = Vec::new();
    let mut p = 7;
    while p < data.len() {
        let mut len = 0usize;
        for i in 0..n {
            len |= (data[p + i] as usize) << (8 * i);
        }
        p += n;
        out.push(data[p..p + len].to_vec());
        p += len;
    }
    Ok(out)
}

fn kat_pairs(repo: &str, rel: &str) -> Result<Vec<(Vec<u8>, Vec<u8>)>, String> {
    let items = read_blb(&format!("{}/{}", repo, rel))?;
    Ok(items.chunks(2).filter(|c| c.len() == 2).map(|c| (c[0].clone(), c[1].clone())).collect())
}

/// Validate every reference hash against the published known-answer tests. Err = the oracle is wrong.
pub fn selftest_hashes(repo: &str) -> Result<u32, String> {
    let mut n = 0u32;
    for bits in [224usize, 256, 384, 512] {
        for (m, d) in kat_pairs(repo, &format!("hashes/blake/tests/data/blake{}.blb", bits))? {
            if blake::Blake::digest(bits, &m) != d {
                return Err(format!("BLAKE-{} reference fails KAT (message of {} bytes)", bits, m.len()));
            }
            n += 1;
        }
        for (m, d) in kat_pairs(repo, &format!("hashes/groestl/tests/data/groestl{}.blb", bits))? {
            if groestl::Groestl::digest(bits, &m) != d {
                return Err(format!("Groestl-{} reference fails KAT (message of {} bytes)", bits, m.len()));
            }
            n += 1;
        }
        for f in ["ShortMsgKAT", "LongMsgKAT"] {
            for (i, (m, d)) in kat_pairs(repo, &format!("hashes/jh/tests/data/{}_{}.blb", f, bits))?.into_iter().enumerate() {
                if f == "LongMsgKAT" && i % 8 != 0 {
                    continue;
                }
                if jh::Jh::digest(bits, &m) != d {
                    return Err(format!("JH-{} reference fails {} (message of {} bytes)", bits, f, m.len()));
                }
                n += 1;
            }
        }
    }
    for (sb, name) in [(32usize, "256"), (64, "512"), (128, "1024")] {
        for ob in [32usize, 64] {
            for (m, d) in kat_pairs(repo, &format!("hashes/skein/tests/data/skein{}_{}.blb", name, ob))? {
                if skein::Skein::digest(sb, ob, &m) != d {
                    return Err(format!("Skein-{}-{} reference fails KAT (message of {} bytes)", name, ob * 8, m.len()));
                }
                n += 1;
            }
        }
    }
    // BLAKE specification vectors (one zero byte; 72 / 144 zero bytes)
    let hex = crate::kit::json::unhex;
    if blake::Blake::digest(256, &[0u8]) != hex("0CE8D4EF4DD7CD8D62DFDED9D4EDB0A774AE6A41929A74DA23109E8F11139C87") {
        return Err("BLAKE-256 spec vector (1 byte) fails".into());
    }
    if blake::Blake::digest(256, &[0u8; 72]) != hex("D419BAD32D504FB7D44D460C42C5593FE544FA4C135DEC31E21BD9ABDCC22D41") {
        return Err("BLAKE-256 spec vector (72 bytes) fails".into());
    }
    if blake::Blake::digest(512, &[0u8]) != hex("97961587F6D970FABA6D2478045DE6D1FABD09B61AE50932054D52BC29D31BE4FF9102B9F69E2BBDB83BE13D4B9C06091E5FA0B48BD081B634058BE0EC49BEB3") {
        return Err("BLAKE-512 spec vector (1 byte) fails".into());
    }
    if blake::Blake::digest(512, &[0u8; 144]) != hex("313717D608E9CF758DCB1EB0F0C3CF9FC150B2D500FB33F51C52AFC99D358A2F1374B8A38BBA7974E7F6EF79CAB16F22CE1E649D6E01AD9589C213045D545DDE") {
        return Err("BLAKE-512 spec vector (144 bytes) fails".into());
    }
    n += 4;
    // Threefish-256 zero vector from the Skein submission
    let c = skein::threefish_encrypt(&[0u64; 4], 0, 0, &[0u64; 4]);
    let mut cb = Vec::new();
    for w in c {
        cb.extend_from_slice(&w.to_le_bytes());
    }
    if cb != hex("84da2a1f8beaee947066ae3e3103f1ad536db1f4a1192495116b9f3ce6133fd8") {
        return Err("Threefish-256 zero vector fails".into());
    }
    n += 1;
    Ok(n)
}
