pub mod chacha;
