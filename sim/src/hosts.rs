//! Simulated hosts: what CPU-feature detection reports is an environment input owned by the simulator (hook H1).
//! Level 0 = no override (the real CPU's best), 1..=5 = SSE2, SSSE3, SSE4.1, AVX, AVX2.
use crate::kit::rng::Rng;
use std::cell::Cell;
use std::sync::atomic::{AtomicU64, Ordering};

thread_local! {
    static CURRENT: Cell<u8> = Cell::new(0);
}

pub const LEVEL_NAMES: [&str; 6] = ["native", "sse2", "ssse3", "sse4.1", "avx", "avx2"];

/// dispatch counts per (level) — relaxed counters, never read by a decision
static DISPATCHES: [AtomicU64; 6] = [AtomicU64::new(0), AtomicU64::new(0), AtomicU64::new(0), AtomicU64::new(0), AtomicU64::new(0), AtomicU64::new(0)];

#[cfg(all(cryptocorrosion_verif, not(hostbuild_fixed)))]
fn level_cb(_site: &'static str) -> u8 {
    let l = CURRENT.with(|c| c.get());
    DISPATCHES[l as usize].fetch_add(1, Ordering::Relaxed);
    l
}

/// highest level the real CPU can execute (a simulated host above it is skipped)
pub fn max_level() -> u8 {
    #[cfg(all(cryptocorrosion_verif, not(hostbuild_fixed)))]
    {
        if is_x86_feature_detected!("avx2") {
            5
        } else if is_x86_feature_detected!("avx") {
            4
        } else if is_x86_feature_detected!("sse4.1") {
            3
        } else if is_x86_feature_detected!("ssse3") {
            2
        } else {
            1
        }
    }
    #[cfg(not(all(cryptocorrosion_verif, not(hostbuild_fixed))))]
    {
        0
    }
}

pub fn install() {
    #[cfg(all(cryptocorrosion_verif, not(hostbuild_fixed)))]
    ppv_lite86::verif::set_level_fn(Some(level_cb));
}

pub fn set_current(level: u8) {
    let l = level.min(max_level());
    CURRENT.with(|c| c.set(l));
}

pub fn current() -> u8 {
    CURRENT.with(|c| c.get())
}

pub fn pick_level(r: &mut Rng) -> u8 {
    // always one draw, whatever the build, so that every host build generates the same run from one seed;
    // a level above what this machine/build can execute is clamped when the run executes (set_current)
    (r.next() % 6) as u8
}

pub fn dispatch_counts() -> Vec<(String, u64)> {
    (0..6).map(|i| (LEVEL_NAMES[i].to_string(), DISPATCHES[i].load(Ordering::Relaxed))).collect()
}
