//! S5 `mem`: every byte-slice argument is placed by the simulator at a chosen alignment against unmapped
//! pages and canaries; the result must equal the same operation on an ordinary buffer and the process
//! must survive (C16). Input-only slices live in read-only pages, so a stray write faults as well.
use super::arena::{Arena, Mode, CUR_OP, DATA};
use super::hashes::{new_hash, TYPES};
use super::s1_chacha_stream::Real;
use crate::hosts;
use crate::kit::json::J;
use crate::kit::rng::{pattern, Streams};
use crate::kit::sim::{guarded, hash_bytes, Op, Scenario, Stats, Step, Violation};
use crate::refm::chacha::KINDS as CK;
use std::sync::atomic::Ordering;

#[derive(Clone, Copy, Debug, PartialEq)]
pub enum Fam {
    Cipher,
    CipherNew,
    Hash,
    HashOut,
    Threefish,
    VecIo,
    VecIoWrong,
    BlockApi,
    JhBlock,
}

#[derive(Clone, Debug)]
pub struct KindDesc {
    pub name: String,
    pub fam: Fam,
    pub a: usize,
    pub b: usize,
    pub c: usize,
    /// length bases for the enumeration (each base stands for base..base+63); empty = fixed size
    pub bases: Vec<usize>,
    pub pres: Vec<usize>,
}

#[cfg(not(hostbuild_portable))]
pub const MACHINES: [&str; 5] = ["SSE2", "SSSE3", "SSE41", "AVX", "AVX2"];
#[cfg(hostbuild_portable)]
pub const MACHINES: [&str; 1] = ["Generic"];
pub const VTYPES: [(&str, usize); 5] = [("u32x4", 16), ("u32x4x2", 32), ("u64x2x2", 32), ("u64x4", 32), ("u32x4x4", 64)];

pub fn kinds() -> Vec<KindDesc> {
    let mut v = Vec::new();
    for (i, k) in CK.iter().enumerate() {
        v.push(KindDesc { name: format!("apply:{}", k.name()), fam: Fam::Cipher, a: i, b: 0, c: 0, bases: vec![0, 64, 192, 256, 448, 576], pres: vec![0, 1, 63, 64, 65] });
    }
    for (i, k) in CK.iter().enumerate() {
        v.push(KindDesc { name: format!("new:{}", k.name()), fam: Fam::CipherNew, a: i, b: 0, c: 0, bases: vec![], pres: vec![0] });
    }
    for (i, t) in TYPES.iter().enumerate() {
        let b = t.block;
        v.push(KindDesc { name: format!("update:{}", t.name), fam: Fam::Hash, a: i, b: 0, c: 0, bases: vec![0, b, 2 * b, 4 * b], pres: vec![0, 1, b - 1] });
    }
    for (i, t) in TYPES.iter().enumerate() {
        v.push(KindDesc { name: format!("finalize_into:{}", t.name), fam: Fam::HashOut, a: i, b: 0, c: 0, bases: vec![], pres: vec![0, t.block - 1] });
    }
    for (i, n) in ["Threefish256", "Threefish512", "Threefish1024"].iter().enumerate() {
        for dec in 0..2 {
            v.push(KindDesc { name: format!("{}:{}", if dec == 1 { "decrypt_block" } else { "encrypt_block" }, n), fam: Fam::Threefish, a: i, b: dec, c: 0, bases: vec![], pres: vec![0] });
        }
    }
    for (mi, m) in MACHINES.iter().enumerate() {
        for (ti, t) in VTYPES.iter().enumerate() {
            for be in 0..2 {
                v.push(KindDesc { name: format!("vec_io:{}:{}:{}", m, t.0, if be == 1 { "be" } else { "le" }), fam: Fam::VecIo, a: mi, b: ti, c: be, bases: vec![], pres: vec![0] });
            }
            // slices of the wrong size: the safe API must refuse them (panic) or stay inside them - never touch memory outside
            v.push(KindDesc { name: format!("vec_io_wrong_size:{}:{}", m, t.0), fam: Fam::VecIoWrong, a: mi, b: ti, c: 0, bases: vec![], pres: vec![0, 1, 2, 3] });
        }
    }
    v.push(KindDesc { name: "block_api:refill".into(), fam: Fam::BlockApi, a: 1, b: 0, c: 0, bases: vec![], pres: vec![0] });
    v.push(KindDesc { name: "block_api:refill4".into(), fam: Fam::BlockApi, a: 4, b: 0, c: 0, bases: vec![], pres: vec![0] });
    v.push(KindDesc { name: "jh_compressor:input".into(), fam: Fam::JhBlock, a: 0, b: 0, c: 0, bases: vec![], pres: vec![0] });
    v
}

/// all (kind, pre, base, host level) combinations of the enumeration tier
pub fn combos(k: &[KindDesc]) -> Vec<(usize, usize, usize, u8)> {
    let mut out = Vec::new();
    let maxl = hosts::max_level();
    for (ki, d) in k.iter().enumerate() {
        for pre in &d.pres {
            let bases = if d.bases.is_empty() { vec![0usize] } else { d.bases.clone() };
            for base in bases {
                // VecIo machines are explicit types: the host level is irrelevant for them
                let levels: Vec<u8> = if d.fam == Fam::VecIo || d.fam == Fam::VecIoWrong || d.fam == Fam::Threefish || maxl == 0 { vec![0] } else { (0..=maxl).collect() };
                for l in levels {
                    out.push((ki, *pre, base, l));
                }
            }
        }
    }
    out
}

pub struct World {
    pub host: u8,
    pub arena: Arena,
    pub kinds: Vec<KindDesc>,
    pub swarm: J,
    pub log: u64,
    pub steps: u64,
    pub enumerate: Option<(usize, usize, usize)>,
}

pub struct S5;

impl Scenario for S5 {
    type World = World;
    fn name(&self) -> &'static str {
        "mem"
    }
    fn gen_setup(&self, mix: &str, st: &mut Streams) -> J {
        let sw = &mut st.swarm;
        let host = hosts::pick_level(sw);
        if mix == "C16enum" {
            let ks = kinds();
            let cs = combos(&ks);
            let (ki, pre, base, level) = cs[(st.run_index % cs.len() as u64) as usize];
            return J::obj()
                .set("host", J::U(level as u128))
                .set("enum", J::obj().set("kind", J::U(ki as u128)).set("pre", J::U(pre as u128)).set("base", J::U(base as u128)).set("name", J::str(&ks[ki].name)))
                .set("swarm", J::obj().set("nops", J::U(192)));
        }
        if mix == "C16heap" {
            // memcheck pass: native SIMD code on exact-size heap blocks (run under valgrind by the driver)
            let fam_w = J::obj().set("cipher", J::U(3)).set("ciphernew", J::U(2)).set("hash", J::U(3)).set("hashout", J::U(1)).set("threefish", J::U(1)).set("vecio", J::U(3)).set("blockapi", J::U(1)).set("jh", J::U(1));
            return J::obj().set("host", J::U(host as u128)).set("heap", J::U(1)).set("swarm", J::obj().set("nops", J::U(24)).set("fam", fam_w));
        }
        let fam_w = J::obj()
            .set("cipher", J::U(sw.range(0, 4) as u128))
            .set("ciphernew", J::U(sw.range(0, 1) as u128))
            .set("hash", J::U(sw.range(0, 4) as u128))
            .set("hashout", J::U(sw.range(0, 2) as u128))
            .set("threefish", J::U(sw.range(0, 2) as u128))
            .set("vecio", J::U(sw.range(0, 3) as u128))
            .set("blockapi", J::U(sw.range(0, 1) as u128))
            .set("jh", J::U(sw.range(0, 1) as u128));
        J::obj().set("host", J::U(host as u128)).set("swarm", J::obj().set("nops", J::U(sw.range(4, 40) as u128)).set("fam", fam_w))
    }
    fn new_world(&self, setup: &J) -> World {
        let host = setup.u_or("host", 0) as u8;
        hosts::set_current(host);
        let enumerate = setup.get("enum").map(|e| (e.u_or("kind", 0) as usize, e.u_or("pre", 0) as usize, e.u_or("base", 0) as usize));
        let mut arena = Arena::new(3);
        arena.heap_mode = setup.u_or("heap", 0) == 1;
        World { host, arena, kinds: kinds(), swarm: setup.get("swarm").cloned().unwrap_or(J::obj()), log: 0, steps: 0, enumerate }
    }
    fn gen_op(&self, w: &World, _mix: &str, st: &mut Streams) -> Option<Op> {
        if w.steps >= w.swarm.u_or("nops", 24) as u64 {
            return None;
        }
        let dseed = st.data.next() as u128;
        if let Some((ki, pre, base)) = w.enumerate {
            // complete enumeration of placement x alignment x length residue for this (kind, pre, base)
            let i = w.steps as usize;
            let j = i % 64;
            let (mode, len, off) = match i / 64 {
                0 => (0u128, base + j, 0),            // End: start alignment = -len mod 64, all 64 residues
                1 => (1u128, base + j, 0),            // Start: first byte after the guard page
                _ => (2u128, base + (j * 5 + 3) % 64, j), // Mid: all 64 start alignments
            };
            return Some(Op::new(0, "mem", &[("kind", ki as u128), ("pre", pre as u128), ("len", len as u128), ("mode", mode), ("off", off as u128), ("dseed", dseed)]));
        }
        let r = &mut st.ops;
        let fam = w.swarm.get("fam").cloned().unwrap_or(J::obj());
        let wts = [
            (Fam::Cipher, fam.u_or("cipher", 2)),
            (Fam::CipherNew, fam.u_or("ciphernew", 1)),
            (Fam::Hash, fam.u_or("hash", 2)),
            (Fam::HashOut, fam.u_or("hashout", 1)),
            (Fam::Threefish, fam.u_or("threefish", 1)),
            (Fam::VecIo, fam.u_or("vecio", 1)),
            (Fam::VecIoWrong, fam.u_or("vecio", 1).min(1)),
            (Fam::BlockApi, fam.u_or("blockapi", 1)),
            (Fam::JhBlock, fam.u_or("jh", 1)),
        ];
        let total: u128 = wts.iter().map(|x| x.1).sum::<u128>().max(1);
        let mut c = r.below(total as u64) as u128;
        let mut f = Fam::Cipher;
        for (k, wt) in wts.iter() {
            if c < *wt {
                f = *k;
                break;
            }
            c -= wt;
        }
        let cands: Vec<usize> = (0..w.kinds.len()).filter(|i| w.kinds[*i].fam == f).collect();
        let ki = *r.pick(&cands);
        let d = &w.kinds[ki];
        let (pre, len) = match d.fam {
            Fam::Cipher => (*r.pick(&[0u64, 0, 1, 17, 63, 64, 65, 130]), if r.chance(1, 8) { r.range(0, 4200) } else { r.range(0, 700) }),
            Fam::Hash => {
                let b = TYPES[d.a].block as u64;
                (*r.pick(&[0, 0, 1, b - 1, b / 2]), if r.chance(1, 8) { r.range(0, 4200) } else { r.range(0, 5 * b) })
            }
            Fam::HashOut => (r.range(0, 2 * TYPES[d.a].block as u64), 0),
            Fam::VecIoWrong => (r.below(4), 0),
            _ => (0, 0),
        };
        let mode = st.place.below(3) as u128;
        let off = st.place.below(64) as u128;
        Some(Op::new(0, "mem", &[("kind", ki as u128), ("pre", pre as u128), ("len", len as u128), ("mode", mode), ("off", off), ("dseed", dseed)]))
    }
    fn step(&self, w: &mut World, op: &Op, stats: &mut Stats) -> Step {
        hosts::set_current(w.host);
        if op.name != "mem" {
            return Step::Skip;
        }
        let ki = op.get("kind") as usize;
        if ki >= w.kinds.len() {
            return Step::Skip;
        }
        CUR_OP.store(w.steps, Ordering::Relaxed);
        w.steps += 1;
        let d = w.kinds[ki].clone();
        let pre = (op.get("pre") as usize).min(4096);
        let len = (op.get("len") as usize).min(DATA - 128);
        let mode = Mode::from(op.get("mode"));
        let off = (op.get("off") % 64) as usize;
        let dseed = op.get("dseed") as u64;
        stats.hit(&format!("op.{:?}", d.fam));
        stats.hit(&format!("fault.placement.{:?}", mode));
        if crate::DRY.load(Ordering::Relaxed) {
            return Step::Done;
        }
        let arena = &mut w.arena;
        let res = guarded(|| exec(&d, pre, len, mode, off, dseed, arena));
        arena.writable(0);
        arena.writable(1);
        arena.writable(2);
        let align_class = match mode {
            Mode::End => (64 - len % 64) % 64,
            Mode::Start => 0,
            Mode::Mid => off,
        };
        let lenc = match d.fam {
            Fam::Cipher | Fam::Hash => (len / 64).min(9),
            _ => 0,
        };
        stats.state(&[12, ki as u64, mode as u64, align_class as u64, lenc as u64, (pre % 64 != 0) as u64]);
        let r = match res {
            Ok(Ok(h)) => {
                w.log = (w.log.rotate_left(7) ^ op.hash()).wrapping_mul(0x9e37_79b9_7f4a_7c15) ^ h;
                Step::Done
            }
            Ok(Err((what, detail))) => Step::Fail(Violation::new(
                &["C16"],
                "M1",
                format!("{}:{}:{:?}", what, d.name, mode),
                format!("{} pre={} len={} mode={:?} off={} host={}: {}", d.name, pre, len, mode, off, w.host, detail),
            )),
            Err(m) => Step::Fail(Violation::new(
                &["C16"],
                "M0",
                format!("panics only with this placement or always:{}:{:?}", d.name, mode),
                format!("{} pre={} len={} mode={:?} off={}: {}", d.name, pre, len, mode, off, m),
            )),
        };
        r
    }
    fn log_digest(&self, w: &World) -> u64 {
        w.log
    }
    fn shrink_setup(&self, setup: &J, ops: &[Op]) -> Vec<(J, Vec<Op>)> {
        if setup.u_or("host", 0) != 0 {
            vec![(setup.clone().set("host", J::U(0)), ops.to_vec())]
        } else {
            vec![]
        }
    }
    fn shrink_values(&self, _op: &Op, arg: &str, v: u128) -> Vec<u128> {
        let mut c: Vec<u128> = match arg {
            "kind" | "mode" => vec![],
            "dseed" | "off" | "pre" => vec![0],
            _ => vec![0, 1, 16, 32, 64, 128, 256, v.saturating_sub(64), v.saturating_sub(1)],
        };
        c.retain(|x| *x < v);
        c
    }
}

type R = Result<u64, (String, String)>;

fn differ(a: &[u8], b: &[u8]) -> Option<usize> {
    a.iter().zip(b).position(|(x, y)| x != y)
}

fn exec(d: &KindDesc, pre: usize, len: usize, mode: Mode, off: usize, dseed: u64, arena: &mut Arena) -> R {
    match d.fam {
        Fam::Cipher => {
            let kind = CK[d.a];
            let key = pattern(dseed ^ 0x11, 32);
            let nonce = pattern(dseed ^ 0x22, kind.nonce_len());
            let input = pattern(dseed, len);
            let mut a = Real::new(kind, &key, &nonce);
            let mut b = Real::new(kind, &key, &nonce);
            let mut scratch = vec![0u8; pre];
            a.apply(&mut scratch);
            let mut scratch2 = vec![0u8; pre];
            b.apply(&mut scratch2);
            let mut placed = arena.place(0, &input, mode, off);
            a.apply(placed.slice_mut());
            let mut plain = input.clone();
            b.apply(&mut plain);
            if !arena.canaries_ok(&placed) {
                return Err(("writes outside the slice".into(), "canary bytes around the data slice were modified".into()));
            }
            if let Some(i) = differ(placed.slice(), &plain) {
                return Err(("result depends on buffer placement".into(), format!("byte {} differs from the ordinary-buffer result", i)));
            }
            // both instances must continue identically
            let mut t1 = [0u8; 70];
            let mut t2 = [0u8; 70];
            a.apply(&mut t1);
            b.apply(&mut t2);
            if t1 != t2 {
                return Err(("state after the call depends on buffer placement".into(), "following keystream differs".into()));
            }
            Ok(hash_bytes(&plain))
        }
        Fam::CipherNew => {
            let kind = CK[d.a];
            let key = pattern(dseed ^ 0x11, 32);
            let nonce = pattern(dseed ^ 0x22, kind.nonce_len());
            let pk = arena.place(0, &key, mode, off);
            let pn = arena.place(1, &nonce, mode, (off * 7 + 3) % 64);
            arena.readonly(0);
            arena.readonly(1);
            let mut a = Real::new(kind, pk.slice(), pn.slice());
            let mut b = Real::new(kind, &key, &nonce);
            let mut t1 = [0u8; 130];
            let mut t2 = [0u8; 130];
            a.apply(&mut t1);
            b.apply(&mut t2);
            if t1 != t2 {
                return Err(("result depends on key/nonce placement".into(), "keystream differs".into()));
            }
            Ok(hash_bytes(&t1))
        }
        Fam::Hash => {
            let input = pattern(dseed, len);
            let prefix = pattern(dseed ^ 0x33, pre);
            let mut a = new_hash(d.a);
            let mut b = new_hash(d.a);
            a.update(&prefix);
            b.update(&prefix);
            let placed = arena.place(0, &input, mode, off);
            arena.readonly(0);
            a.update(placed.slice());
            b.update(&input);
            let da = a.finalize_box();
            let db = b.finalize_box();
            if da != db {
                return Err(("result depends on buffer placement".into(), format!("digest {} vs ordinary-buffer {}", crate::kit::json::hex(&da), crate::kit::json::hex(&db))));
            }
            Ok(hash_bytes(&da))
        }
        Fam::HashOut => {
            // the digest is written into a caller-provided array: placed by the simulator like every other output
            let msg = pattern(dseed, pre);
            let mut a = new_hash(d.a);
            let mut b = new_hash(d.a);
            a.update(&msg);
            b.update(&msg);
            let outlen = TYPES[d.a].out;
            let mut out = arena.place(1, &vec![0u8; outlen], mode, off);
            let mut plain = vec![0u8; outlen];
            if dseed & 16 == 0 {
                a.finalize_into_at(out.slice_mut());
                b.finalize_into_at(&mut plain);
            } else {
                a.finalize_into_reset_at(out.slice_mut());
                b.finalize_into_reset_at(&mut plain);
            }
            if !arena.canaries_ok(&out) {
                return Err(("writes outside the slice".into(), "canary bytes around the digest output were modified".into()));
            }
            if out.slice() != &plain[..] {
                return Err(("result depends on buffer placement".into(), "digest written to the placed array differs".into()));
            }
            Ok(hash_bytes(&plain))
        }
        Fam::Threefish => threefish(d.a, d.b == 1, mode, off, dseed, arena),
        Fam::VecIo => {
            let size = VTYPES[d.b].1;
            let input = pattern(dseed | 2, size);
            let src = arena.place(0, &input, mode, off);
            arena.readonly(0);
            let mut dst = arena.place(1, &vec![0u8; size], mode, (off * 11 + 5) % 64);
            vec_io(d.a, d.b, d.c == 1, src.slice(), dst.slice_mut());
            let mut plain = vec![0u8; size];
            vec_io(d.a, d.b, d.c == 1, &input, &mut plain);
            if !arena.canaries_ok(&dst) {
                return Err(("writes outside the slice".into(), "canary bytes around the output slice were modified".into()));
            }
            if dst.slice() != &plain[..] {
                return Err(("result depends on buffer placement".into(), "stored bytes differ".into()));
            }
            if plain != input {
                // read+write in the same byte order is the identity (round trip stated by C13; used here only as a sanity note)
                return Err(("byte load/store round trip changes the bytes".into(), "read_x then write_x is not the identity".into()));
            }
            Ok(hash_bytes(&plain))
        }
        Fam::VecIoWrong => {
            // pre selects the defect: 0 source one byte short, 1 source one byte long, 2 destination short, 3 destination long
            let size = VTYPES[d.b].1;
            let (slen, dlen) = match pre % 4 {
                0 => (size - 1, size),
                1 => (size + 1, size),
                2 => (size, size - 1),
                _ => (size, size + 1),
            };
            let be = dseed & 32 != 0;
            let input = pattern(dseed | 2, slen);
            let src = arena.place(0, &input, mode, off);
            arena.readonly(0);
            let mut dst = arena.place(1, &vec![0u8; dlen], mode, (off * 11 + 5) % 64);
            let placed = guarded(|| vec_io(d.a, d.b, be, src.slice(), dst.slice_mut()));
            let mut plain = vec![0u8; dlen];
            let ordinary = guarded(|| vec_io(d.a, d.b, be, &input, &mut plain));
            if !arena.canaries_ok(&dst) {
                return Err(("writes outside the slice".into(), format!("a {}-byte destination for a {}-byte vector: canary bytes were modified", dlen, size)));
            }
            match (placed, ordinary) {
                (Err(_), Err(_)) => Ok(1),
                (Ok(()), Ok(())) => {
                    if dst.slice() != &plain[..] {
                        return Err(("result depends on buffer placement".into(), "wrong-size vector I/O returns different bytes".into()));
                    }
                    Ok(hash_bytes(&plain))
                }
                _ => Err(("refusal depends on buffer placement".into(), "wrong-size vector I/O panics for one placement only".into())),
            }
        }
        Fam::BlockApi => {
            use c2_chacha::guts::ChaCha;
            let key = pattern(dseed ^ 0x11, 32);
            let nonce = pattern(dseed ^ 0x22, if dseed & 4 == 0 { 8 } else { 12 });
            let pk = arena.place(0, &key, mode, off);
            let pn = arena.place(1, &nonce, mode, (off * 7 + 3) % 64);
            arena.readonly(0);
            arena.readonly(1);
            let karr: &[u8; 32] = pk.slice().try_into().unwrap();
            let mut a = ChaCha::new(karr, pn.slice());
            let mut kb = [0u8; 32];
            kb.copy_from_slice(&key);
            let mut b = ChaCha::new(&kb, &nonce);
            let dr = (dseed >> 8) as u32 % 11;
            if d.a == 4 {
                let mut out = arena.place(2, &[0u8; 256], mode, (off * 13 + 1) % 64);
                let oarr: &mut [u8; 256] = out.slice_mut().try_into().unwrap();
                a.refill4(dr, oarr);
                let mut plain = [0u8; 256];
                b.refill4(dr, &mut plain);
                if !arena.canaries_ok(&out) {
                    return Err(("writes outside the slice".into(), "refill4 output".into()));
                }
                if out.slice() != &plain[..] {
                    return Err(("result depends on buffer placement".into(), "refill4 output differs".into()));
                }
                Ok(hash_bytes(&plain))
            } else {
                let mut out = arena.place(2, &[0u8; 64], mode, (off * 13 + 1) % 64);
                let oarr: &mut [u8; 64] = out.slice_mut().try_into().unwrap();
                a.refill(dr, oarr);
                let mut plain = [0u8; 64];
                b.refill(dr, &mut plain);
                if !arena.canaries_ok(&out) {
                    return Err(("writes outside the slice".into(), "refill output".into()));
                }
                if out.slice() != &plain[..] {
                    return Err(("result depends on buffer placement".into(), "refill output differs".into()));
                }
                Ok(hash_bytes(&plain))
            }
        }
        Fam::JhBlock => {
            use digest::generic_array::GenericArray;
            use jh_x86_64::compressor::Compressor;
            let block = pattern(dseed | 2, 64);
            let mut iv = [0u8; 128];
            iv.copy_from_slice(&pattern(dseed ^ 0x55 | 2, 128));
            let p = arena.place(0, &block, mode, off);
            arena.readonly(0);
            let mut a = Compressor::new(iv);
            let mut b = Compressor::new(iv);
            a.input(GenericArray::from_slice(p.slice()));
            b.input(GenericArray::from_slice(&block));
            let (fa, fb) = (a.finalize(), b.finalize());
            if fa != fb {
                return Err(("result depends on buffer placement".into(), "JH compressor state differs".into()));
            }
            Ok(hash_bytes(&fa))
        }
    }
}

fn threefish(size: usize, dec: bool, mode: Mode, off: usize, dseed: u64, arena: &mut Arena) -> R {
    use cipher::generic_array::GenericArray;
    use cipher::{BlockDecrypt, BlockEncrypt, NewBlockCipher};
    use threefish_cipher::{Threefish1024, Threefish256, Threefish512};
    macro_rules! go {
        ($T:ty, $n:expr) => {{
            let key = pattern(dseed ^ 0x11 | 2, $n);
            let block = pattern(dseed | 2, $n);
            let pk = arena.place(0, &key, mode, off);
            arena.readonly(0);
            let mut pb = arena.place(1, &block, mode, (off * 7 + 3) % 64);
            let (t0, t1) = (dseed.rotate_left(13), dseed.rotate_left(29));
            let (fa, fb) = if dseed & 8 == 0 {
                (<$T>::new(GenericArray::from_slice(pk.slice())), <$T>::new(GenericArray::from_slice(&key)))
            } else {
                (<$T>::with_tweak(GenericArray::from_slice(pk.slice()), t0, t1), <$T>::with_tweak(GenericArray::from_slice(&key), t0, t1))
            };
            let mut plain = block.clone();
            if dec {
                fa.decrypt_block(GenericArray::from_mut_slice(pb.slice_mut()));
                fb.decrypt_block(GenericArray::from_mut_slice(&mut plain));
            } else {
                fa.encrypt_block(GenericArray::from_mut_slice(pb.slice_mut()));
                fb.encrypt_block(GenericArray::from_mut_slice(&mut plain));
            }
            if !arena.canaries_ok(&pb) {
                return Err(("writes outside the slice".into(), "block".into()));
            }
            if pb.slice() != &plain[..] {
                return Err(("result depends on buffer placement".into(), "block differs".into()));
            }
            Ok(hash_bytes(&plain))
        }};
    }
    match size {
        0 => go!(Threefish256, 32),
        1 => go!(Threefish512, 64),
        _ => go!(Threefish1024, 128),
    }
}

#[cfg(not(hostbuild_portable))]
fn vec_io(machine: usize, vtype: usize, be: bool, src: &[u8], dst: &mut [u8]) {
    use ppv_lite86::x86_64::{AVX, AVX2, SSE2, SSE41, SSSE3};
    use ppv_lite86::Machine;
    unsafe {
        match machine {
            0 => vec_io_m(SSE2::instance(), vtype, be, src, dst),
            1 => vec_io_m(SSSE3::instance(), vtype, be, src, dst),
            2 => vec_io_m(SSE41::instance(), vtype, be, src, dst),
            3 => vec_io_m(AVX::instance(), vtype, be, src, dst),
            _ => vec_io_m(AVX2::instance(), vtype, be, src, dst),
        }
    }
}

#[cfg(hostbuild_portable)]
fn vec_io(_machine: usize, vtype: usize, be: bool, src: &[u8], dst: &mut [u8]) {
    use ppv_lite86::generic::GenericMachine;
    use ppv_lite86::Machine;
    unsafe { vec_io_m(GenericMachine::instance(), vtype, be, src, dst) }
}

fn vec_io_m<M: ppv_lite86::Machine>(m: M, vtype: usize, be: bool, src: &[u8], dst: &mut [u8]) {
    use ppv_lite86::StoreBytes;
    macro_rules! go {
        ($T:ty) => {{
            if be {
                let x: $T = m.read_be(src);
                x.write_be(dst)
            } else {
                let x: $T = m.read_le(src);
                x.write_le(dst)
            }
        }};
    }
    match vtype {
        0 => go!(M::u32x4),
        1 => go!(M::u32x4x2),
        2 => go!(M::u64x2x2),
        3 => go!(M::u64x4),
        _ => go!(M::u32x4x4),
    }
}
