//! S1 `chacha_stream`: seek/apply/current_pos/clone histories over the seven cipher types (C02, C11).
use crate::hosts;
use crate::kit::json::{hex, unhex, J};
use crate::kit::rng::{pattern, Rng, Streams};
use crate::kit::sim::{guarded, Op, Scenario, Stats, Step, Violation};
use crate::refm::chacha::{Kind, Stream, KINDS};
use c2_chacha::{ChaCha12, ChaCha20, ChaCha8, Ietf, XChaCha12, XChaCha20, XChaCha8};
use cipher::generic_array::GenericArray;
use cipher::{NewCipher, StreamCipher, StreamCipherSeek};

// note: the cipher types are not Clone (their marker type parameters are not), so there is no clone operation
pub enum Real {
    C8(ChaCha8),
    C12(ChaCha12),
    C20(ChaCha20),
    Ietf(Ietf),
    X8(XChaCha8),
    X12(XChaCha12),
    X20(XChaCha20),
}

macro_rules! with_real {
    ($r:expr, $c:ident, $body:expr) => {
        match $r {
            Real::C8($c) => $body,
            Real::C12($c) => $body,
            Real::C20($c) => $body,
            Real::Ietf($c) => $body,
            Real::X8($c) => $body,
            Real::X12($c) => $body,
            Real::X20($c) => $body,
        }
    };
}

impl Real {
    pub fn new(kind: Kind, key: &[u8], nonce: &[u8]) -> Real {
        let k = GenericArray::from_slice(key);
        match kind {
            Kind::ChaCha8 => Real::C8(ChaCha8::new(k, GenericArray::from_slice(nonce))),
            Kind::ChaCha12 => Real::C12(ChaCha12::new(k, GenericArray::from_slice(nonce))),
            Kind::ChaCha20 => Real::C20(ChaCha20::new(k, GenericArray::from_slice(nonce))),
            Kind::Ietf => Real::Ietf(Ietf::new(k, GenericArray::from_slice(nonce))),
            Kind::XChaCha8 => Real::X8(XChaCha8::new(k, GenericArray::from_slice(nonce))),
            Kind::XChaCha12 => Real::X12(XChaCha12::new(k, GenericArray::from_slice(nonce))),
            Kind::XChaCha20 => Real::X20(XChaCha20::new(k, GenericArray::from_slice(nonce))),
        }
    }
    /// construct from key/nonce slices that start `kalign` bytes after a 16-byte aligned address
    /// (the caller's buffers are part of the environment; 0 = the allocator's alignment)
    pub fn new_placed(kind: Kind, key: &[u8], nonce: &[u8], kalign: usize) -> Real {
        let ka = kalign % 16;
        let mut kb = vec![0u8; key.len() + 32];
        let ko = (16 - (kb.as_ptr() as usize % 16)) % 16 + ka;
        kb[ko..ko + key.len()].copy_from_slice(key);
        let mut nb = vec![0u8; nonce.len() + 48];
        let no = (16 - (nb.as_ptr() as usize % 16)) % 16 + (ka * 7 + 3) % 16;
        nb[no..no + nonce.len()].copy_from_slice(nonce);
        if kalign % 2 == 1 {
            Real::new_from_slices(kind, &kb[ko..ko + key.len()], &nb[no..no + nonce.len()])
        } else {
            Real::new(kind, &kb[ko..ko + key.len()], &nb[no..no + nonce.len()])
        }
    }
    /// through the provided constructor NewCipher::new_from_slices
    pub fn new_from_slices(kind: Kind, key: &[u8], nonce: &[u8]) -> Real {
        match kind {
            Kind::ChaCha8 => Real::C8(ChaCha8::new_from_slices(key, nonce).expect("lengths")),
            Kind::ChaCha12 => Real::C12(ChaCha12::new_from_slices(key, nonce).expect("lengths")),
            Kind::ChaCha20 => Real::C20(ChaCha20::new_from_slices(key, nonce).expect("lengths")),
            Kind::Ietf => Real::Ietf(Ietf::new_from_slices(key, nonce).expect("lengths")),
            Kind::XChaCha8 => Real::X8(XChaCha8::new_from_slices(key, nonce).expect("lengths")),
            Kind::XChaCha12 => Real::X12(XChaCha12::new_from_slices(key, nonce).expect("lengths")),
            Kind::XChaCha20 => Real::X20(XChaCha20::new_from_slices(key, nonce).expect("lengths")),
        }
    }
    pub fn try_apply(&mut self, data: &mut [u8]) -> bool {
        with_real!(self, c, c.try_apply_keystream(data).is_ok())
    }
    pub fn apply(&mut self, data: &mut [u8]) {
        with_real!(self, c, c.apply_keystream(data))
    }
    /// try_seek with the argument converted to integer type `ty`; None = value not representable in `ty`
    pub fn try_seek(&mut self, ty: u128, v: u128, neg: bool) -> Option<bool> {
        macro_rules! go {
            ($t:ty) => {{
                let x: $t = <$t>::try_from(v).ok()?;
                Some(with_real!(self, c, c.try_seek::<$t>(x).is_ok()))
            }};
        }
        match ty {
            0 => go!(u8),
            1 => go!(u16),
            2 => go!(u32),
            3 => go!(u64),
            4 => go!(u128),
            5 => go!(usize),
            _ => {
                let m = i32::try_from(v).ok()?;
                let x = if neg { -m } else { m };
                Some(with_real!(self, c, c.try_seek::<i32>(x).is_ok()))
            }
        }
    }
    pub fn seek(&mut self, ty: u128, v: u128) -> Option<()> {
        macro_rules! go {
            ($t:ty) => {{
                let x: $t = <$t>::try_from(v).ok()?;
                with_real!(self, c, c.seek::<$t>(x));
                Some(())
            }};
        }
        match ty {
            0 => go!(u8),
            1 => go!(u16),
            2 => go!(u32),
            3 => go!(u64),
            4 => go!(u128),
            5 => go!(usize),
            _ => go!(i32),
        }
    }
    /// try_current_pos::<ty>() widened to u128; Ok(None) = OverflowError
    pub fn try_pos(&self, ty: u128) -> Option<u128> {
        macro_rules! go {
            ($t:ty) => {
                with_real!(self, c, c.try_current_pos::<$t>().ok().map(|v| v as u128))
            };
        }
        match ty {
            0 => go!(u8),
            1 => go!(u16),
            2 => go!(u32),
            3 => go!(u64),
            4 => go!(u128),
            5 => go!(usize),
            _ => go!(i32),
        }
    }
    pub fn pos_panicking(&self, ty: u128) -> u128 {
        macro_rules! go {
            ($t:ty) => {
                with_real!(self, c, c.current_pos::<$t>() as u128)
            };
        }
        match ty {
            0 => go!(u8),
            1 => go!(u16),
            2 => go!(u32),
            3 => go!(u64),
            4 => go!(u128),
            5 => go!(usize),
            _ => go!(i32),
        }
    }
}

pub const TY_NAMES: [&str; 7] = ["u8", "u16", "u32", "u64", "u128", "usize", "i32"];
pub fn ty_max(ty: u128) -> u128 {
    match ty {
        0 => u8::MAX as u128,
        1 => u16::MAX as u128,
        2 => u32::MAX as u128,
        3 | 5 => u64::MAX as u128,
        4 => u128::MAX,
        _ => i32::MAX as u128,
    }
}

pub struct Task {
    pub kind: Kind,
    pub key: Vec<u8>,
    pub nonce: Vec<u8>,
    pub spec: Stream,
    pub real: Option<Real>,
    pub kalign: usize,
    /// model: absolute position
    pub pos: u128,
    /// model: last op was a mid-block seek (a lazily pending block exists in a buffering implementation)
    pub lazy: bool,
    /// model: the instance has failed a request, produced its last block, or crossed a counter-word carry
    pub touched: bool,
    pub failed: bool,
}

pub struct World {
    pub host: u8,
    pub tasks: Vec<Task>,
    pub swarm: J,
    pub log: u64,
    pub steps: u64,
    pub tlogs: Vec<u64>,
}

pub struct S1;

const LIMIT38: u128 = 1 << 38;
const TWO64: u128 = 1 << 64;

fn len_choices(r: &mut Rng, maxlen: u64) -> u64 {
    const L: [u64; 28] = [0, 1, 2, 3, 31, 62, 63, 64, 65, 66, 127, 128, 129, 191, 192, 193, 255, 256, 257, 319, 320, 511, 512, 513, 767, 1023, 1024, 1025];
    let v = if r.chance(3, 4) { *r.pick(&L) } else { r.range(0, maxlen) };
    v.min(maxlen)
}

fn task_json(kind: Kind, key: &[u8], nonce: &[u8], kalign: u64) -> J {
    J::obj().set("kind", J::str(kind.name())).set("key", J::S(hex(key))).set("nonce", J::S(hex(nonce))).set("kalign", J::U(kalign as u128))
}

impl S1 {
    fn boundary_pos(&self, r: &mut Rng, kind: Kind, mix: &str) -> u128 {
        // positions near 0, near 2^38 (IETF end / low-word carry), near 2^64, block aligned +- delta, uniform
        let delta = if r.chance(1, 2) { r.range(0, 5) * 64 + r.range(0, 64) } else { r.range(0, 1500) } as u128;
        let c = r.below(if mix == "C11" { 8 } else { 12 });
        let p = match c {
            0 => r.range(0, 63) as u128,
            1 => 0,
            2 | 3 => LIMIT38.saturating_sub(delta),
            4 => LIMIT38 + delta,
            5 => (TWO64 - 1).saturating_sub(delta),
            6 => {
                if delta == 0 {
                    LIMIT38
                } else {
                    LIMIT38 - 64 * ((delta / 64) + 1) + (delta % 64)
                }
            }
            7 => LIMIT38,
            8 => (r.range(0, 1 << 20) as u128) * 64 + *r.pick(&[0u128, 0, 1, 63, 32]),
            9 => r.next() as u128,
            10 => r.range(0, 70000) as u128,
            _ => r.range(0, 1 << 38) as u128,
        };
        match kind.limit() {
            Some(_) => p,
            None => p.min(TWO64 - 1),
        }
    }
}

fn props_for_bytes(t: &Task) -> Vec<&'static str> {
    if t.touched {
        vec!["C02", "C11"]
    } else {
        vec!["C02"]
    }
}

impl Scenario for S1 {
    type World = World;
    fn name(&self) -> &'static str {
        "chacha_stream"
    }

    fn gen_setup(&self, mix: &str, st: &mut Streams) -> J {
        let sw = &mut st.swarm;
        let ntasks = sw.range(1, 3);
        let share = sw.chance(1, 2);
        let host = hosts::pick_level(sw);
        let mut tasks = Vec::new();
        let ietf_bias = if mix == "C11" { 3 } else { 1 };
        let mut first: Option<(Kind, Vec<u8>, Vec<u8>)> = None;
        for _ in 0..ntasks {
            if share && first.is_some() {
                // the same stream, or a closely related one: same key with another nonce, same nonce with another key,
                // a difference in the very last byte only (what a cache keyed too coarsely would confuse)
                let (k, mut key, mut nonce) = first.clone().unwrap();
                match sw.below(5) {
                    0 | 1 => {}
                    2 => {
                        let n = nonce.len();
                        nonce[n - 1] ^= 1;
                    }
                    3 => nonce[0] ^= 0x80,
                    _ => key[31] ^= 1,
                }
                tasks.push(task_json(k, &key, &nonce, st.place.below(16)));
                continue;
            }
            let kind = if sw.chance(ietf_bias, ietf_bias + 2) { Kind::Ietf } else { *sw.pick(&KINDS) };
            let key = match sw.below(5) {
                0 => vec![0u8; 32],
                1 => vec![0xffu8; 32],
                2 => st.data.boundary_words(32),
                _ => st.data.bytes(32),
            };
            let nonce = match sw.below(6) {
                0 => vec![0u8; kind.nonce_len()],
                1 => vec![0xffu8; kind.nonce_len()],
                2 | 3 => st.data.boundary_words(kind.nonce_len()),
                _ => st.data.bytes(kind.nonce_len()),
            };
            if first.is_none() {
                first = Some((kind, key.clone(), nonce.clone()));
            }
            let ka = if st.place.chance(1, 3) { 0 } else { st.place.below(16) };
            tasks.push(task_json(kind, &key, &nonce, ka));
        }
        // swarm knobs: which op kinds are enabled in this run, length ceiling
        let swarm = J::obj()
            .set("w_apply", J::U(sw.range(2, 8) as u128))
            .set("w_seek", J::U(sw.range(0, 5) as u128))
            .set("w_pos", J::U(sw.range(0, 2) as u128))
            .set("w_twice", J::U(sw.range(0, 1) as u128))
            .set("w_renew", J::U(sw.range(0, 1) as u128))
            .set("w_fail", J::U(if mix == "C11" { sw.range(1, 4) } else { sw.range(0, 1) } as u128))
            .set("maxlen", J::U(if sw.chance(1, 48) { 70000 } else { *sw.pick(&[70u64, 300, 1400, 4096]) } as u128))
            .set("nops", J::U(sw.range(4, 40) as u128));
        J::obj().set("host", J::U(host as u128)).set("tasks", J::A(tasks)).set("swarm", swarm)
    }

    fn new_world(&self, setup: &J) -> World {
        let host = setup.u_or("host", 0) as u8;
        hosts::set_current(host);
        let mut tasks = Vec::new();
        for t in setup.arr("tasks") {
            let kind = Kind::from_name(t.s("kind").unwrap_or("ChaCha20")).unwrap_or(Kind::ChaCha20);
            let mut key = unhex(t.s("key").unwrap_or(""));
            key.resize(32, 0);
            let mut nonce = unhex(t.s("nonce").unwrap_or(""));
            nonce.resize(kind.nonce_len(), 0);
            let spec = Stream::new(kind, &key, &nonce);
            let kalign = t.u_or("kalign", 0) as usize;
            let real = guarded(|| Real::new_placed(kind, &key, &nonce, kalign)).ok();
            tasks.push(Task { kind, key, nonce, spec, real, kalign, pos: 0, lazy: false, touched: false, failed: false });
        }
        World { host, tasks, swarm: setup.get("swarm").cloned().unwrap_or(J::obj()), log: 0, steps: 0, tlogs: vec![] }
    }

    fn gen_op(&self, w: &World, mix: &str, st: &mut Streams) -> Option<Op> {
        let live: Vec<usize> = (0..w.tasks.len()).filter(|i| w.tasks[*i].real.is_some()).collect();
        if live.is_empty() || w.steps >= w.swarm.u_or("nops", 48) as u64 {
            return None;
        }
        // the scheduler picks which task (instance) runs next
        let ti = *st.sched.pick(&live);
        let t = &w.tasks[ti];
        let sw = &w.swarm;
        let r = &mut st.ops;
        let maxlen = sw.u_or("maxlen", 300) as u64;
        let wts = [
            ("apply", sw.u_or("w_apply", 4)),
            ("seek", sw.u_or("w_seek", 2)),
            ("pos", sw.u_or("w_pos", 1)),
            ("twice", sw.u_or("w_twice", 0)),
            ("renew", sw.u_or("w_renew", 0)),
            ("fail", sw.u_or("w_fail", 0)),
        ];
        let total: u128 = wts.iter().map(|x| x.1).sum();
        let mut c = r.below(total.max(1) as u64) as u128;
        let mut kind = "apply";
        for (k, wt) in wts.iter() {
            if c < *wt {
                kind = k;
                break;
            }
            c -= wt;
        }
        let t32 = ti as u32;
        let dseed = st.data.next();
        let align = st.place.below(64) as u128;
        match kind {
            "apply" | "twice" => {
                let mut len = len_choices(r, maxlen) as u128;
                // aim at exact fit / one past the end when close to the limit
                if let Some(lim) = t.kind.limit() {
                    if lim >= t.pos && lim - t.pos <= maxlen as u128 + 64 && r.chance(1, 2) {
                        let room = lim - t.pos;
                        len = match r.below(4) {
                            0 => room,
                            1 => room + 1,
                            2 => room.saturating_sub(1),
                            _ => room + r.range(0, 130) as u128,
                        };
                    }
                }
                let in_contract = match t.kind.limit() {
                    Some(lim) => t.pos + len <= lim,
                    None => t.pos + len <= TWO64,
                };
                let tr = if in_contract && r.chance(1, 2) { 0 } else { 1 };
                if kind == "twice" {
                    Some(Op::new(t32, "twice", &[("len", len), ("dseed", dseed as u128), ("align", align)]))
                } else {
                    Some(Op::new(t32, "apply", &[("len", len), ("dseed", dseed as u128), ("align", align), ("try", tr)]))
                }
            }
            "fail" => {
                // a request aimed across the end of the keystream from the current buffered state:
                // first make sure we are close to the end (the generator emits the seek on an earlier step)
                match t.kind.limit() {
                    Some(lim) if lim >= t.pos && lim - t.pos <= 1500 => {
                        let room = lim - t.pos;
                        let len = room + 1 + *r.pick(&[0u64, 0, 1, 62, 63, 64, 191, 192, 255, 256, 700]) as u128;
                        Some(Op::new(t32, "apply", &[("len", len), ("dseed", dseed as u128), ("align", align), ("try", 1)]))
                    }
                    Some(lim) => {
                        // seek close to the end, every buffered state: aligned, mid-block, last block, exactly the end
                        let back = match r.below(6) {
                            0 => 0,
                            1 => r.range(1, 63) as u128,
                            2 => 64,
                            3 => 64 * r.range(1, 5) as u128 + r.range(0, 63) as u128,
                            4 => 256 + r.range(0, 300) as u128,
                            _ => r.range(0, 1400) as u128,
                        };
                        let ty = *r.pick(&[3u128, 4, 5]);
                        Some(Op::new(t32, "seek", &[("ty", ty), ("pos", lim - back), ("neg", 0), ("try", r.below(2) as u128)]))
                    }
                    None => {
                        // 64-bit variants: go next to the low-word carry or to 2^64 bytes and read across
                        let target = if r.chance(1, 2) { LIMIT38 } else { TWO64 };
                        if target > t.pos && target - t.pos <= 1500 {
                            let len = (target - t.pos) + r.range(0, 300) as u128;
                            Some(Op::new(t32, "apply", &[("len", len), ("dseed", dseed as u128), ("align", align), ("try", 1)]))
                        } else {
                            let back = r.range(1, 1400) as u128;
                            Some(Op::new(t32, "seek", &[("ty", 3), ("pos", target - back), ("neg", 0), ("try", r.below(2) as u128)]))
                        }
                    }
                }
            }
            "seek" => {
                let ty = r.below(7) as u128;
                let mut p = self.boundary_pos(r, t.kind, mix);
                let mut neg = 0u128;
                // make most values representable in the chosen type; sometimes keep an out-of-range one
                if p > ty_max(ty) {
                    if r.chance(1, 6) && ty == 4 {
                        // keep
                    } else {
                        p %= ty_max(ty) + 1;
                    }
                }
                if ty == 6 && r.chance(1, 8) {
                    neg = 1;
                    p = p.max(1);
                }
                let in_range = neg == 0 && p <= ty_max(ty) && match t.kind.limit() {
                    Some(lim) => p <= lim,
                    None => p < TWO64,
                };
                let tr = if in_range && r.chance(1, 2) { 0 } else { 1 };
                Some(Op::new(t32, "seek", &[("ty", ty), ("pos", p), ("neg", neg), ("try", tr)]))
            }
            "pos" => Some(Op::new(t32, "pos", &[("ty", r.below(7) as u128), ("try", r.below(2) as u128)])),
            _ => Some(Op::new(t32, "renew", &[])),
        }
    }

    fn step(&self, w: &mut World, op: &Op, stats: &mut Stats) -> Step {
        hosts::set_current(w.host);
        let ti = op.t as usize;
        if ti >= w.tasks.len() || w.tasks[ti].real.is_none() {
            return Step::Skip;
        }
        let host = w.host;
        w.steps += 1;
        let mut result_hash: u64 = 0;
        let r = match op.name.as_str() {
            "apply" => step_apply(&mut w.tasks[ti], host, op, stats, &mut result_hash),
            "twice" => step_twice(&mut w.tasks[ti], op, stats, &mut result_hash),
            "seek" => step_seek(&mut w.tasks[ti], op, stats, &mut result_hash),
            "pos" => step_pos(&mut w.tasks[ti], op, stats, &mut result_hash),
            "renew" => {
                let t = &mut w.tasks[ti];
                stats.hit("op.renew");
                match guarded(|| Real::new_placed(t.kind, &t.key, &t.nonce, t.kalign)) {
                    Ok(r) => {
                        t.real = Some(r);
                        t.pos = 0;
                        t.lazy = false;
                        t.touched = false;
                        t.failed = false;
                        Step::Done
                    }
                    Err(m) => Step::Fail(Violation::new(&["C02"], "I3", format!("new panics:{}", t.kind.name()), m)),
                }
            }
            "drop" => {
                w.tasks[ti].real = None;
                Step::Done
            }
            _ => Step::Skip,
        };
        if ti >= w.tlogs.len() {
            w.tlogs.resize(ti + 1, 0);
        }
        w.tlogs[ti] = (w.tlogs[ti].rotate_left(7) ^ op.hash_nt()).wrapping_mul(0x9e37_79b9_7f4a_7c15) ^ result_hash;
        w.log = (w.log.rotate_left(7) ^ op.hash()).wrapping_mul(0x9e37_79b9_7f4a_7c15) ^ result_hash;
        r
    }

    fn log_digest(&self, w: &World) -> u64 {
        w.log
    }
    fn task_logs(&self, w: &World) -> Vec<u64> {
        w.tlogs.clone()
    }

    fn shrink_setup(&self, setup: &J, ops: &[Op]) -> Vec<(J, Vec<Op>)> {
        let mut out = Vec::new();
        let tasks = setup.arr("tasks");
        // remove task i when no op refers to it (clones are appended after the initial tasks, so only trailing removal keeps ids stable)
        if tasks.len() > 1 {
            for i in 0..tasks.len() {
                if ops.iter().any(|o| o.t as usize == i) {
                    continue;
                }
                // only safe when no clone op exists (clone ids depend on the task count) or i is not before them
                if ops.iter().any(|o| o.name == "clone") {
                    continue;
                }
                let mut nt: Vec<J> = tasks.to_vec();
                nt.remove(i);
                let nops: Vec<Op> = ops
                    .iter()
                    .map(|o| {
                        let mut o = o.clone();
                        if o.t as usize > i {
                            o.t -= 1;
                        }
                        o
                    })
                    .collect();
                out.push((setup.clone().set("tasks", J::A(nt)), nops));
            }
        }
        // simplest host
        if setup.u_or("host", 0) != 0 {
            out.push((setup.clone().set("host", J::U(0)), ops.to_vec()));
        }
        out
    }

    fn shrink_values(&self, op: &Op, arg: &str, v: u128) -> Vec<u128> {
        let mut c: Vec<u128> = match arg {
            "dseed" => vec![0],
            "align" => vec![0],
            "try" => vec![],
            "ty" => vec![3],
            "neg" => vec![],
            "pos" => {
                let mut c = vec![0, 1, 64, LIMIT38 - 64, LIMIT38 - 1, LIMIT38, (v / 64) * 64, v.saturating_sub(64), v / 2];
                if op.get("ty") != 3 {
                    c.clear();
                }
                c
            }
            _ => vec![0, 1, 63, 64, 65, 128, 256, v / 2, v.saturating_sub(1), v.saturating_sub(64)],
        };
        c.retain(|x| *x < v);
        c.dedup();
        c
    }
}

fn len_class(len: u128) -> u64 {
    match len {
        0 => 0,
        1..=63 => 1,
        64 => 2,
        65..=255 => 3,
        256 => 4,
        257..=511 => 5,
        _ => 6,
    }
}

fn left_class(t: &Task) -> u64 {
    match t.kind.limit() {
        None => {
            if t.pos >= TWO64 {
                5
            } else {
                4
            }
        }
        Some(lim) => {
            let left = lim.saturating_sub(t.pos) / 64;
            match left {
                0 => 0,
                1..=4 => 1,
                _ => 2,
            }
        }
    }
}

fn abstract_state(t: &Task, opk: u64, lenc: u64, crossed: u64, stats: &mut Stats) {
    let vclass = match t.kind {
        Kind::Ietf => 0,
        Kind::ChaCha8 | Kind::ChaCha12 | Kind::ChaCha20 => 1,
        _ => 2,
    };
    stats.state(&[1, vclass, (t.pos % 64 != 0) as u64, t.lazy as u64, left_class(t), opk, lenc, crossed, t.failed as u64]);
}

/// Real-code differential used to *decide* a byte mismatch: the same absolute positions reached by other histories.
/// Returns Some(description) if two histories of the real code disagree (history dependence), None if every
/// history yields the same bytes (then the deviation from the spec model is a conformance matter, not C02/C11).
fn history_differential(t: &Task, p: u128, observed_ks: &[u8]) -> Option<String> {
    let len = observed_ks.len();
    let mut results: Vec<(String, Result<Vec<u8>, String>)> = Vec::new();
    // A: fresh instance, one seek to the enclosing block start, one apply
    let aligned = p - p % 64;
    let kind = t.kind;
    let (key, nonce) = (t.key.clone(), t.nonce.clone());
    let run = |start: u128, chunks: &[usize]| -> Result<Vec<u8>, String> {
        guarded(|| {
            let mut c = Real::new(kind, &key, &nonce);
            if start != 0 {
                if start < TWO64 {
                    if c.try_seek(3, start, false) != Some(true) {
                        return Err("seek failed".to_string());
                    }
                } else if c.try_seek(4, start, false) != Some(true) {
                    return Err("seek failed".to_string());
                }
            }
            let total = (p - start) as usize + len;
            let mut buf = vec![0u8; total];
            let mut off = 0;
            let mut i = 0;
            while off < total {
                let n = chunks[i % chunks.len()].min(total - off).max(1);
                if !c.try_apply(&mut buf[off..off + n]) {
                    return Err(format!("apply failed at offset {}", off));
                }
                off += n;
                i += 1;
            }
            Ok(buf[(p - start) as usize..].to_vec())
        })
        .unwrap_or_else(|m| Err(format!("panic: {}", m)))
    };
    if aligned < TWO64 + (1 << 20) {
        results.push(("fresh+seek(block start)+one apply".into(), run(aligned, &[usize::MAX])));
        if aligned >= 192 {
            results.push(("fresh+seek(3 blocks earlier)+17-byte applies".into(), run(aligned - 192, &[17])));
        }
        results.push(("fresh+seek(exact)+apply".into(), run(p, &[usize::MAX])));
    }
    if p + (len as u128) <= (1 << 18) {
        results.push(("fresh+apply from 0".into(), run(0, &[4096])));
        results.push(("fresh+apply from 0 in 61-byte pieces".into(), run(0, &[61])));
    }
    for (name, r) in &results {
        match r {
            Ok(b) if b.as_slice() == observed_ks => {}
            Ok(b) => {
                let i = b.iter().zip(observed_ks).position(|(x, y)| x != y).unwrap_or(0);
                return Some(format!("history '{}' gives {:02x} at byte {} where this history gave {:02x}", name, b[i], i, observed_ks[i]));
            }
            Err(m) => return Some(format!("history '{}' could not produce the bytes: {}", name, m)),
        }
    }
    None
}

fn step_apply(t: &mut Task, _host: u8, op: &Op, stats: &mut Stats, rh: &mut u64) -> Step {
    let len = op.get("len");
    if len > (1 << 20) {
        return Step::Skip;
    }
    let len = len as usize;
    let align = (op.get("align") % 64) as usize;
    let input = pattern(op.get("dseed") as u64, len);
    // buffer with canaries on both sides, start address alignment chosen by the placement stream
    let mut store = vec![0xA5u8; len + 64 + 64 + 64];
    let base = store.as_ptr() as usize;
    let off = 64 + ((64 - (base % 64)) % 64 + align) % 64;
    store[off..off + len].copy_from_slice(&input);
    let lim = t.kind.limit();
    let p = t.pos;
    let must_fail = match lim {
        Some(l) => p + len as u128 > l,
        None => false,
    };
    let relaxed = lim.is_none() && p + len as u128 > TWO64;
    let in_contract = !must_fail && !relaxed;
    let use_try = op.get("try") != 0 || !in_contract;
    let was_lazy = t.lazy;
    let kindname = t.kind.name();
    stats.hit(if use_try { "op.try_apply" } else { "op.apply" });
    let real = t.real.as_mut().unwrap();
    let res = guarded(|| {
        if use_try {
            real.try_apply(&mut store[off..off + len])
        } else {
            real.apply(&mut store[off..off + len]);
            true
        }
    });
    let ok = match res {
        Ok(ok) => ok,
        Err(m) => {
            let props: &[&str] = if must_fail { &["C11"] } else if t.touched { &["C02", "C11"] } else { &["C02"] };
            return Step::Fail(Violation::new(
                props,
                "I3",
                format!("apply panics:{}:lazy={}:mustfail={}", if lim.is_some() { "ctr32" } else { "ctr64" }, was_lazy as u8, must_fail as u8),
                format!("{} apply({}) at pos {} panicked: {}", kindname, len, p, m),
            ));
        }
    };
    *rh = ok as u64;
    // canaries
    if store[..off].iter().any(|b| *b != 0xA5) || store[off + len..].iter().any(|b| *b != 0xA5) {
        return Step::Fail(Violation::new(&["C02", "C16"], "I1c", format!("apply writes outside the slice:{}", kindname), format!("len {} align {}", len, align)));
    }
    let lenc = len_class(len as u128);
    if must_fail {
        // fault: keystream exhaustion in flight
        let fill = if was_lazy { "lazy_pending" } else if p % 64 != 0 { "buffered_tail" } else { "empty_buffer" };
        stats.hit(&format!("fault.exhaustion.{}", fill));
        if len as u128 - (lim.unwrap() - p.min(lim.unwrap())) > 0 && len >= 256 {
            stats.hit("fault.exhaustion.wide_path_request");
        }
        if ok {
            return Step::Fail(Violation::new(
                &["C11"],
                "A3",
                format!("request past the end succeeds:{}", kindname),
                format!("{} try_apply({}) at pos {} (limit {}) returned Ok", kindname, len, p, lim.unwrap()),
            ));
        }
        if store[off..off + len] != input[..] {
            let i = store[off..off + len].iter().zip(&input).position(|(a, b)| a != b).unwrap();
            return Step::Fail(Violation::new(
                &["C11"],
                "A1",
                format!("failed request modifies data:{}:{}", kindname, fill),
                format!("{} try_apply({}) at pos {} returned Err but byte {} changed", kindname, len, p, i),
            ));
        }
        t.failed = true;
        t.touched = true;
        t.lazy = false; // a buffering implementation may have materialised the pending block; not observable
        abstract_state(t, 2, lenc, 0, stats);
        return Step::Done;
    }
    if !ok {
        if relaxed {
            stats.hit("relaxed.err_beyond_2^64_bytes");
            if store[off..off + len] != input[..] {
                return Step::Fail(Violation::new(&["C11"], "A1", format!("failed request modifies data:{}:beyond2^64", kindname), format!("pos {} len {}", p, len)));
            }
            t.failed = true;
            return Step::Done;
        }
        let exact = lim.map(|l| p + len as u128 == l).unwrap_or(false);
        return Step::Fail(Violation::new(
            &["C11"],
            "A4",
            format!("in-range request fails:{}:exact_fit={}:lazy={}", if lim.is_some() { "ctr32" } else { "ctr64" }, exact as u8, was_lazy as u8),
            format!("{} try_apply({}) at pos {} returned Err", kindname, len, p),
        ));
    }
    // success: bytes must be input XOR keystream[p..p+len]
    *rh = crate::kit::sim::hash_bytes(&store[off..off + len]) | 1;
    let ks = t.spec.bytes(p, len);
    let mut bad = None;
    for i in 0..len {
        if store[off + i] != input[i] ^ ks[i] {
            bad = Some(i);
            break;
        }
    }
    if let Some(i) = bad {
        let observed: Vec<u8> = (0..len).map(|i| store[off + i] ^ input[i]).collect();
        match history_differential(t, p, &observed) {
            Some(why) => {
                let props = props_for_bytes(t);
                return Step::Fail(Violation::new(
                    &props,
                    "I1",
                    format!(
                        "bytes depend on history:{}:touched={}:failed={}:lazy={}:blk0={}",
                        if lim.is_some() { "ctr32" } else { "ctr64" },
                        t.touched as u8,
                        t.failed as u8,
                        was_lazy as u8,
                        (p < 64) as u8
                    ),
                    format!("{} apply({}) at pos {}: byte {} is {:02x}, spec {:02x}; {}", kindname, len, p, i, store[off + i], input[i] ^ ks[i], why),
                ));
            }
            None => {
                stats.note("consistent_deviation_from_spec_model(C01 territory, not decided here)");
            }
        }
    }
    let crossed_carry = p / 64 < (1 << 32) && (p + len as u128 + 63) / 64 > (1 << 32);
    if was_lazy && len == 0 {
        stats.hit("probe.zero_len_apply_with_pending_lazy_block");
    }
    if p % 64 != 0 && !was_lazy && len >= (64 - (p % 64) as usize) + 256 + 1 {
        stats.hit("probe.buffered_tail+wide+tail_in_one_apply");
    }
    if let Some(l) = lim {
        if p + len as u128 == l && len > 0 {
            stats.hit("probe.exact_fit_to_end_of_keystream");
            t.touched = true;
        }
        if p + len as u128 > l - 64 && len > 0 {
            stats.hit("probe.last_block_produced");
            t.touched = true;
        }
    }
    if crossed_carry && len > 0 {
        stats.hit("probe.crossed_2^32_block_carry");
        t.touched = true;
    }
    if p < TWO64 && p + len as u128 > TWO64 {
        stats.hit("probe.crossed_2^64_bytes");
    }
    if t.failed {
        stats.hit("probe.successful_apply_after_a_failure");
    }
    t.pos = p + len as u128;
    if len > 0 {
        t.lazy = false;
    }
    abstract_state(t, 1, lenc, crossed_carry as u64, stats);
    Step::Done
}

fn step_twice(t: &mut Task, op: &Op, stats: &mut Stats, rh: &mut u64) -> Step {
    let len = op.get("len");
    if len > (1 << 20) {
        return Step::Skip;
    }
    let len = len as usize;
    let p = t.pos;
    let in_range = match t.kind.limit() {
        Some(l) => p + len as u128 <= l,
        None => p + len as u128 <= TWO64 && p < TWO64,
    };
    if !in_range {
        return Step::Skip;
    }
    stats.hit("op.twice");
    let input = pattern(op.get("dseed") as u64, len);
    let mut buf = input.clone();
    let kindname = t.kind.name();
    let real = t.real.as_mut().unwrap();
    let res = guarded(|| {
        if !real.try_apply(&mut buf) {
            return Err("first apply failed");
        }
        if real.try_seek(4, p, false) != Some(true) {
            return Err("seek back failed");
        }
        if !real.try_apply(&mut buf) {
            return Err("second apply failed");
        }
        Ok(())
    });
    match res {
        Err(m) => {
            return Step::Fail(Violation::new(&["C02"], "I3", format!("apply-seek-apply panics:{}", if t.kind.limit().is_some() { "ctr32" } else { "ctr64" }), format!("{} at pos {} len {}: {}", kindname, p, len, m)))
        }
        Ok(Err(m)) => {
            return Step::Fail(Violation::new(&["C02", "C11"], "I6", format!("apply-seek-apply fails in range:{}", kindname), format!("{} at pos {} len {}: {}", kindname, p, len, m)))
        }
        Ok(Ok(())) => {}
    }
    *rh = 1;
    if buf != input {
        let i = buf.iter().zip(&input).position(|(a, b)| a != b).unwrap();
        return Step::Fail(Violation::new(
            &props_for_bytes(t),
            "I6",
            format!("applying twice at one position does not restore the data:{}:touched={}", if t.kind.limit().is_some() { "ctr32" } else { "ctr64" }, t.touched as u8),
            format!("{} pos {} len {}: byte {} differs after apply, seek back, apply", kindname, p, len, i),
        ));
    }
    if let Some(l) = t.kind.limit() {
        if p + len as u128 > l - 64 && len > 0 {
            stats.hit("probe.last_block_produced");
            t.touched = true;
        }
    }
    t.pos = p + len as u128;
    t.lazy = len == 0 && p % 64 != 0;
    abstract_state(t, 5, len_class(len as u128), 0, stats);
    Step::Done
}

fn step_seek(t: &mut Task, op: &Op, stats: &mut Stats, rh: &mut u64) -> Step {
    let ty = op.get("ty").min(6);
    let v = op.get("pos");
    let neg = op.get("neg") != 0 && ty == 6;
    if v > ty_max(ty) {
        return Step::Skip; // not expressible in that type: cannot even be written
    }
    let lim = t.kind.limit();
    let in_range = !neg
        && match lim {
            Some(l) => v <= l,
            None => v < TWO64,
        };
    let relaxed = !neg && lim.is_none() && v >= TWO64;
    let use_try = op.get("try") != 0 || !in_range;
    let kindname = t.kind.name();
    let cls = if lim.is_some() { "ctr32" } else { "ctr64" };
    stats.hit(if use_try { "op.try_seek" } else { "op.seek" });
    stats.hit(&format!("seek.type.{}", TY_NAMES[ty as usize]));
    let real = t.real.as_mut().unwrap();
    let res = guarded(|| {
        if use_try {
            real.try_seek(ty, v, neg).unwrap()
        } else {
            real.seek(ty, v).unwrap();
            true
        }
    });
    let ok = match res {
        Ok(ok) => ok,
        Err(m) => {
            let (props, what): (&[&str], &str) = if in_range { (&["C02"], "in-range seek panics") } else { (&["C11"], "out-of-range try_seek panics") };
            return Step::Fail(Violation::new(
                props,
                "I4p",
                format!("{}:{}:neg={}", what, cls, neg as u8),
                format!("{} seek::<{}>({}{}) panicked: {}", kindname, TY_NAMES[ty as usize], if neg { "-" } else { "" }, v, m),
            ));
        }
    };
    *rh = ok as u64;
    if in_range {
        if !ok {
            let at_limit = lim.map(|l| v == l).unwrap_or(false);
            let props: &[&str] = if at_limit { &["C02", "C11"] } else { &["C02"] };
            return Step::Fail(Violation::new(
                props,
                "I4",
                format!("in-range seek rejected:{}:at_limit={}:ty={}", cls, at_limit as u8, TY_NAMES[ty as usize]),
                format!("{} try_seek::<{}>({}) returned Err", kindname, TY_NAMES[ty as usize], v),
            ));
        }
        if lim.map(|l| v == l).unwrap_or(false) {
            stats.hit("fault.seek_exactly_at_limit");
            t.touched = true;
        }
        if v < t.pos {
            stats.hit("probe.seek_backwards");
            if t.pos / 64 >= (1 << 32) && v / 64 < (1 << 32) {
                stats.hit("probe.seek_backwards_across_2^32_block_carry");
            }
        }
        t.pos = v;
        t.lazy = v % 64 != 0;
        if t.lazy && v < 64 {
            stats.hit("probe.mid_block_seek_into_block_0");
        }
        abstract_state(t, 3, 0, 0, stats);
        return Step::Done;
    }
    if relaxed {
        stats.hit("relaxed.seek_u128_beyond_2^64");
        if ok {
            t.pos = v;
            t.lazy = v % 64 != 0;
        }
        return Step::Done;
    }
    // out of range: must be an error, position unchanged (checked by later operations against the model)
    stats.hit(if neg { "fault.negative_seek" } else { "fault.seek_past_limit" });
    if ok {
        // an accepted NEGATIVE position is also against C02: the cipher now claims a position that does not exist,
        // so whatever it produces next is not "the keystream byte of its absolute stream position"
        let props: &[&str] = if neg { &["C11", "C02"] } else { &["C11"] };
        return Step::Fail(Violation::new(
            props,
            "A5",
            format!("seek past the end accepted:{}:neg={}", cls, neg as u8),
            format!("{} try_seek::<{}>({}{}) returned Ok", kindname, TY_NAMES[ty as usize], if neg { "-" } else { "" }, v),
        ));
    }
    t.touched = true;
    abstract_state(t, 4, 0, 0, stats);
    Step::Done
}

fn step_pos(t: &mut Task, op: &Op, stats: &mut Stats, rh: &mut u64) -> Step {
    let ty = op.get("ty").min(6);
    let fits = t.pos <= ty_max(ty);
    let use_try = op.get("try") != 0 || !fits;
    let kindname = t.kind.name();
    let cls = if t.kind.limit().is_some() { "ctr32" } else { "ctr64" };
    stats.hit(if use_try { "op.try_current_pos" } else { "op.current_pos" });
    let real = t.real.as_ref().unwrap();
    let res = guarded(|| if use_try { real.try_pos(ty) } else { Some(real.pos_panicking(ty)) });
    let got = match res {
        Ok(g) => g,
        Err(m) => {
            return Step::Fail(Violation::new(
                &["C02"],
                "I2p",
                format!("current_pos panics:{}", if m.contains("not implemented") { "unimplemented" } else { cls }),
                format!("{} current_pos::<{}>() at pos {} panicked: {}", kindname, TY_NAMES[ty as usize], t.pos, m),
            ))
        }
    };
    *rh = got.map(|g| g as u64 ^ 1).unwrap_or(0);
    let props: &[&str] = if t.failed { &["C02", "C11"] } else { &["C02"] };
    match got {
        Some(g) if g != t.pos => Step::Fail(Violation::new(
            props,
            "I2",
            format!("current_pos wrong:{}:lazy={}:failed={}", cls, t.lazy as u8, t.failed as u8),
            format!("{} current_pos::<{}>() = {} but the absolute position is {}", kindname, TY_NAMES[ty as usize], g, t.pos),
        )),
        // (a position beyond 2^64 bytes is representable in u128 and must be reported there as well)
        None if fits => Step::Fail(Violation::new(
            props,
            "I2",
            format!("current_pos overflow error although representable:{}", cls),
            format!("{} try_current_pos::<{}>() = Err at pos {}", kindname, TY_NAMES[ty as usize], t.pos),
        )),
        _ => {
            if t.failed {
                stats.hit("probe.position_checked_after_failure");
            }
            abstract_state(t, 6, fits as u64, 0, stats);
            Step::Done
        }
    }
}
