//! S8 `vecops`: seeded programs of ppv-lite86 vector operations executed on every Machine type; the register
//! files must stay bit-identical across machines after every step (C03: "a vector computation is bit-identical
//! whichever backend executes it"). In the std build the machines are SSE2, SSSE3, SSE4.1, AVX, AVX2; the portable
//! build has the generic machine, whose transcripts the driver compares with the std build run by run.
//! Only cross-backend identity is judged here - not what an operation should compute (that is C12/C13).
use crate::kit::json::J;
use crate::kit::rng::Streams;
use crate::kit::sim::{guarded, hash_bytes, Op, Scenario, Stats, Step, Violation};
use ppv_lite86::*;

pub use super::vecops_core::Regs;

pub struct World {
    pub regs: Vec<Regs>,
    pub log: u64,
    pub steps: u64,
    pub nops: u64,
}

pub struct S8;

#[cfg(not(hostbuild_portable))]
pub const MACHINES: [&str; 5] = ["SSE2", "SSSE3", "SSE41", "AVX", "AVX2"];
#[cfg(hostbuild_portable)]
pub const MACHINES: [&str; 1] = ["Generic"];

pub const TYPES: [&str; 10] = ["u32x4", "u64x2", "u128x1", "u32x4x2", "u64x2x2", "u64x4", "u128x2", "u32x4x4", "u64x2x4", "u128x4"];

pub use super::vecops_core::{exec, exec_bytes, BYTE_TYPES, GROUPS};
use super::vecops_core::{ld256, ld512, st256, st512};

/// group 12: conversions between the 128-bit-word view and the other views of the same width. They exist on the x86
/// machines only (not in the trait bounds, not on the generic backend); they must not change a bit, so the portable
/// build's transcript (where the step is the identity) still has to agree.
#[cfg(not(hostbuild_portable))]
fn exec_conv<M: Machine>(m: M, k: u32, regs: &mut Regs, dst: usize, ia: usize)
where
    M::u128x1: Into<M::u32x4> + Into<M::u64x2>,
    M::u128x2: Into<M::u32x4x2> + Into<M::u64x2x2> + Into<M::u64x4>,
    M::u128x4: Into<M::u32x4x4> + Into<M::u64x2x4>,
{
    use super::vecops_core::{ld128, st128};
    let ra = regs[ia];
    let out = &mut regs[dst];
    match k % 7 {
        0 => {
            let a: M::u128x1 = ld128(m, &ra);
            let r: M::u32x4 = a.into();
            st128(r, out)
        }
        1 => {
            let a: M::u128x1 = ld128(m, &ra);
            let r: M::u64x2 = a.into();
            st128(r, out)
        }
        2 => {
            let a: M::u128x2 = ld256(m, &ra);
            let r: M::u32x4x2 = a.into();
            st256(r, out)
        }
        3 => {
            let a: M::u128x2 = ld256(m, &ra);
            let r: M::u64x2x2 = a.into();
            st256(r, out)
        }
        4 => {
            let a: M::u128x2 = ld256(m, &ra);
            let r: M::u64x4 = a.into();
            st256(r, out)
        }
        5 => {
            let a: M::u128x4 = ld512(m, &ra);
            let r: M::u32x4x4 = a.into();
            st512(r, out)
        }
        _ => {
            let a: M::u128x4 = ld512(m, &ra);
            let r: M::u64x2x4 = a.into();
            st512(r, out)
        }
    }
}

#[cfg(not(hostbuild_portable))]
fn exec_on(mi: usize, ty: usize, group: usize, k: u32, imm: u32, regs: &mut Regs, dst: usize, ia: usize, ib: usize) {
    use ppv_lite86::x86_64::{AVX, AVX2, SSE2, SSE41, SSSE3};
    if group == 12 {
        unsafe {
            match mi {
                0 => exec_conv(SSE2::instance(), k, regs, dst, ia),
                1 => exec_conv(SSSE3::instance(), k, regs, dst, ia),
                2 => exec_conv(SSE41::instance(), k, regs, dst, ia),
                3 => exec_conv(AVX::instance(), k, regs, dst, ia),
                _ => exec_conv(AVX2::instance(), k, regs, dst, ia),
            }
        }
        return;
    }
    if group >= 13 {
        // byte-I/O programs (operands through read_le/read_be, results through write_le/write_be); sub-group from k
        let g = (group - 13) as usize;
        unsafe {
            match mi {
                0 => exec_bytes(SSE2::instance(), ty, g, k, imm, regs, dst, ia, ib),
                1 => exec_bytes(SSSE3::instance(), ty, g, k, imm, regs, dst, ia, ib),
                2 => exec_bytes(SSE41::instance(), ty, g, k, imm, regs, dst, ia, ib),
                3 => exec_bytes(AVX::instance(), ty, g, k, imm, regs, dst, ia, ib),
                _ => exec_bytes(AVX2::instance(), ty, g, k, imm, regs, dst, ia, ib),
            }
        }
        return;
    }
    unsafe {
        match mi {
            0 => exec(SSE2::instance(), ty, group, k, imm, regs, dst, ia, ib),
            1 => exec(SSSE3::instance(), ty, group, k, imm, regs, dst, ia, ib),
            2 => exec(SSE41::instance(), ty, group, k, imm, regs, dst, ia, ib),
            3 => exec(AVX::instance(), ty, group, k, imm, regs, dst, ia, ib),
            _ => exec(AVX2::instance(), ty, group, k, imm, regs, dst, ia, ib),
        }
    }
}
#[cfg(hostbuild_portable)]
fn exec_on(_mi: usize, ty: usize, group: usize, k: u32, imm: u32, regs: &mut Regs, dst: usize, ia: usize, ib: usize) {
    use ppv_lite86::generic::GenericMachine;
    if group == 12 {
        // a conversion keeps every bit: copy the operand's bits of that width
        let width = match k % 7 {
            0 | 1 => 16,
            2 | 3 | 4 => 32,
            _ => 64,
        };
        let ra = regs[ia];
        regs[dst][..width].copy_from_slice(&ra[..width]);
        return;
    }
    if group >= 13 {
        unsafe { exec_bytes(GenericMachine::instance(), ty, group - 13, k, imm, regs, dst, ia, ib) }
        return;
    }
    unsafe { exec(GenericMachine::instance(), ty, group, k, imm, regs, dst, ia, ib) }
}

fn machines_available() -> usize {
    #[cfg(not(hostbuild_portable))]
    {
        if is_x86_feature_detected!("avx2") {
            5
        } else if is_x86_feature_detected!("avx") {
            4
        } else if is_x86_feature_detected!("sse4.1") {
            3
        } else if is_x86_feature_detected!("ssse3") {
            2
        } else {
            1
        }
    }
    #[cfg(hostbuild_portable)]
    {
        1
    }
}

impl Scenario for S8 {
    type World = World;
    fn name(&self) -> &'static str {
        "vecops"
    }
    fn gen_setup(&self, _mix: &str, st: &mut Streams) -> J {
        let mut init = Vec::new();
        for _ in 0..4 {
            let b = match st.swarm.below(4) {
                0 => vec![0u8; 64],
                1 => vec![0xff; 64],
                2 => (0..64u8).collect(),
                _ => st.data.bytes(64),
            };
            init.push(J::S(crate::kit::json::hex(&b)));
        }
        J::obj().set("regs", J::A(init)).set("nops", J::U(st.swarm.range(4, 40) as u128))
    }
    fn new_world(&self, setup: &J) -> World {
        let mut r: Regs = [[0u8; 64]; 4];
        for (i, j) in setup.arr("regs").iter().enumerate().take(4) {
            let mut b = crate::kit::json::unhex(j.as_str().unwrap_or(""));
            b.resize(64, 0);
            r[i].copy_from_slice(&b);
        }
        World { regs: vec![r; machines_available()], log: 0, steps: 0, nops: setup.u_or("nops", 16) as u64 }
    }
    fn gen_op(&self, w: &World, _mix: &str, st: &mut Streams) -> Option<Op> {
        if w.steps >= w.nops {
            return None;
        }
        let r = &mut st.ops;
        Some(Op::new(
            0,
            "vop",
            &[
                ("ty", r.below(10) as u128),
                ("group", r.below(25) as u128),
                ("k", r.below(8) as u128),
                ("imm", r.below(256) as u128),
                ("dst", r.below(4) as u128),
                ("a", r.below(4) as u128),
                ("b", r.below(4) as u128),
            ],
        ))
    }
    fn step(&self, w: &mut World, op: &Op, stats: &mut Stats) -> Step {
        if op.name != "vop" {
            return Step::Skip;
        }
        w.steps += 1;
        let ty = (op.get("ty") % 10) as usize;
        let group = (op.get("group") % 25) as usize;
        let (k, imm) = (op.get("k") as u32, op.get("imm") as u32);
        let (dst, ia, ib) = ((op.get("dst") % 4) as usize, (op.get("a") % 4) as usize, (op.get("b") % 4) as usize);
        let gname: String = if group == 12 {
            "convert".to_string()
        } else if group >= 13 {
            format!("byteio_{}", GROUPS[group - 13])
        } else {
            GROUPS[group].to_string()
        };
        let gname = gname.as_str();
        let tname = if group >= 13 { BYTE_TYPES[ty % 5] } else { TYPES[ty] };
        stats.hit(&format!("op.{}.{}", tname, gname));
        let mut outcomes: Vec<Result<(), String>> = Vec::new();
        for mi in 0..w.regs.len() {
            let regs = &mut w.regs[mi];
            outcomes.push(guarded(|| exec_on(mi, ty, group, k, imm, regs, dst, ia, ib)));
            stats.hit(&format!("host.{}.steps", MACHINES[mi]));
        }
        stats.state(&[17, ty as u64, group as u64, k as u64 % 8, if group >= 13 { (imm as u64 >> 5) & 3 } else { 0 }]);
        let panicked: Vec<usize> = (0..outcomes.len()).filter(|i| outcomes[*i].is_err()).collect();
        if !panicked.is_empty() && panicked.len() < outcomes.len() {
            let names: Vec<&str> = panicked.iter().map(|i| MACHINES[*i]).collect();
            return Step::Fail(Violation::new(
                &["C03"],
                "V2",
                format!("vector op panics on some backends only:{}:{}:{}", tname, gname, names.join("+")),
                format!("{} {} k={} imm={}: {}", tname, gname, k, imm, outcomes[panicked[0]].clone().unwrap_err()),
            ));
        }
        if panicked.len() == outcomes.len() {
            // every machine of this build refuses: the transcript records it (another build may not)
            w.log = (w.log.rotate_left(7) ^ op.hash()).wrapping_mul(0x9e37_79b9_7f4a_7c15) ^ 0xdead;
            stats.hit("probe.op_panics_on_every_machine_of_this_build");
            stats.hit(&format!("refused_everywhere.{}.{}", tname, gname));
            return Step::Done;
        }
        let r0 = w.regs[0];
        for mi in 1..w.regs.len() {
            if w.regs[mi] != r0 {
                // majority vote for the report
                let mut odd = Vec::new();
                for mj in 0..w.regs.len() {
                    let same = (0..w.regs.len()).filter(|x| w.regs[*x] == w.regs[mj]).count();
                    if same * 2 <= w.regs.len() {
                        odd.push(MACHINES[mj]);
                    }
                }
                return Step::Fail(Violation::new(
                    &["C03"],
                    "V1",
                    format!("vector op differs between backends:{}:{}:{}", tname, gname, odd.join("+")),
                    format!("{} {} k={} imm={} on registers {} {}: machine {} differs from {}", tname, gname, k, imm, ia, ib, MACHINES[mi], MACHINES[0]),
                ));
            }
        }
        let flat: Vec<u8> = r0.iter().flat_map(|r| r.iter().copied()).collect();
        w.log = (w.log.rotate_left(7) ^ op.hash()).wrapping_mul(0x9e37_79b9_7f4a_7c15) ^ hash_bytes(&flat);
        Step::Done
    }
    fn log_digest(&self, w: &World) -> u64 {
        w.log
    }
    fn shrink_values(&self, _op: &Op, arg: &str, v: u128) -> Vec<u128> {
        let mut c: Vec<u128> = match arg {
            "ty" | "group" => vec![],
            _ => vec![0, 1],
        };
        c.retain(|x| *x < v);
        c
    }
}
