//! S8 `vecops`: seeded programs of ppv-lite86 vector operations executed on every Machine type; the register
//! files must stay bit-identical across machines after every step (C03: "a vector computation is bit-identical
//! whichever backend executes it"). In the std build the machines are SSE2, SSSE3, SSE4.1, AVX, AVX2; the portable
//! build has the generic machine, whose transcripts the driver compares with the std build run by run.
//! Only cross-backend identity is judged here - not what an operation should compute (that is C12/C13).
use crate::kit::json::J;
use crate::kit::rng::Streams;
use crate::kit::sim::{guarded, hash_bytes, Op, Scenario, Stats, Step, Violation};
use ppv_lite86::*;

pub type Regs = [[u8; 64]; 4];

pub struct World {
    pub regs: Vec<Regs>,
    pub log: u64,
    pub steps: u64,
    pub nops: u64,
}

pub struct S8;

#[cfg(not(hostbuild_portable))]
pub const MACHINES: [&str; 5] = ["SSE2", "SSSE3", "SSE41", "AVX", "AVX2"];
#[cfg(hostbuild_portable)]
pub const MACHINES: [&str; 1] = ["Generic"];

pub const TYPES: [&str; 10] = ["u32x4", "u64x2", "u128x1", "u32x4x2", "u64x2x2", "u64x4", "u128x2", "u32x4x4", "u64x2x4", "u128x4"];

fn w128(b: &[u8]) -> vec128_storage {
    let mut w = [0u32; 4];
    for i in 0..4 {
        w[i] = u32::from_le_bytes([b[4 * i], b[4 * i + 1], b[4 * i + 2], b[4 * i + 3]]);
    }
    vec128_storage::from(w)
}
fn b128(s: vec128_storage, out: &mut [u8]) {
    let w: [u32; 4] = s.into();
    for i in 0..4 {
        out[4 * i..4 * i + 4].copy_from_slice(&w[i].to_le_bytes());
    }
}
fn ld128<M: Machine, V: Store<vec128_storage>>(m: M, b: &[u8]) -> V {
    m.unpack(w128(&b[..16]))
}
fn ld256<M: Machine, V: Store<vec256_storage>>(m: M, b: &[u8]) -> V {
    m.unpack(vec256_storage::new128([w128(&b[..16]), w128(&b[16..32])]))
}
fn ld512<M: Machine, V: Store<vec512_storage>>(m: M, b: &[u8]) -> V {
    m.unpack(vec512_storage::new128([w128(&b[..16]), w128(&b[16..32]), w128(&b[32..48]), w128(&b[48..64])]))
}
fn st128<V: Into<vec128_storage>>(v: V, out: &mut [u8; 64]) {
    b128(v.into(), &mut out[..16]);
}
fn st256<V: Into<vec256_storage>>(v: V, out: &mut [u8; 64]) {
    let s: vec256_storage = v.into();
    let [a, b] = s.split128();
    b128(a, &mut out[..16]);
    b128(b, &mut out[16..32]);
}
fn st512<V: Into<vec512_storage>>(v: V, out: &mut [u8; 64]) {
    let s: vec512_storage = v.into();
    let [a, b, c, d] = s.split128();
    b128(a, &mut out[..16]);
    b128(b, &mut out[16..32]);
    b128(c, &mut out[32..48]);
    b128(d, &mut out[48..64]);
}

fn bit0<V: BitOps0>(k: u32, a: V, b: V) -> V {
    match k % 6 {
        0 => a ^ b,
        1 => a & b,
        2 => a | b,
        3 => !a,
        4 => a.andnot(b),
        _ => {
            let mut x = a;
            x ^= b;
            x
        }
    }
}
fn rot32<V: RotateEachWord32>(k: u32, a: V) -> V {
    match k % 8 {
        0 => a.rotate_each_word_right7(),
        1 => a.rotate_each_word_right8(),
        2 => a.rotate_each_word_right11(),
        3 => a.rotate_each_word_right12(),
        4 => a.rotate_each_word_right16(),
        5 => a.rotate_each_word_right20(),
        6 => a.rotate_each_word_right24(),
        _ => a.rotate_each_word_right25(),
    }
}
fn arith<V: ArithOps>(k: u32, a: V, b: V) -> V {
    match k % 3 {
        0 => a + b,
        1 => {
            let mut x = a;
            x += b;
            x
        }
        _ => a.bswap(),
    }
}
fn swap<V: Swap64>(k: u32, a: V) -> V {
    match k % 7 {
        0 => a.swap1(),
        1 => a.swap2(),
        2 => a.swap4(),
        3 => a.swap8(),
        4 => a.swap16(),
        5 => a.swap32(),
        _ => a.swap64(),
    }
}
fn words4<V: Words4>(k: u32, a: V) -> V {
    match k % 3 {
        0 => a.shuffle1230(),
        1 => a.shuffle2301(),
        _ => a.shuffle3012(),
    }
}
fn lanewords4<V: LaneWords4>(k: u32, a: V) -> V {
    match k % 3 {
        0 => a.shuffle_lane_words1230(),
        1 => a.shuffle_lane_words2301(),
        _ => a.shuffle_lane_words3012(),
    }
}
fn bytes_roundtrip<V: StoreBytes, M: Machine>(m: M, k: u32, a: V, size: usize) -> V {
    // write in one byte order, read back in the other (or the same): a pure byte permutation
    let mut buf = [0u8; 64];
    match k % 4 {
        0 => {
            a.write_le(&mut buf[..size]);
            m.read_le(&buf[..size])
        }
        1 => {
            a.write_be(&mut buf[..size]);
            m.read_be(&buf[..size])
        }
        2 => {
            a.write_le(&mut buf[..size]);
            m.read_be(&buf[..size])
        }
        _ => {
            a.write_be(&mut buf[..size]);
            m.read_le(&buf[..size])
        }
    }
}

/// group numbering (shared by all types; a type that lacks a group maps it to bit0)
pub const GROUPS: [&str; 12] = ["bit0", "rot32", "rot64", "arith", "swap", "words4", "lanewords4", "extract_insert", "lanes", "bytes", "eq", "special"];

/// lane index for extract/insert: in range, unless bit 7 of imm is set - then any small index, possibly out of range
/// (every backend must then behave alike: all refuse, or all return the same)
fn idx(imm: u32, shift: u32, lanes: u32) -> u32 {
    if imm & 0x80 != 0 {
        (imm >> shift) % 8
    } else {
        (imm >> shift) % lanes
    }
}

fn exec<M: Machine>(m: M, ty: usize, group: usize, k: u32, imm: u32, regs: &mut Regs, dst: usize, ia: usize, ib: usize)
where
    M::u32x4: PartialEq,
    M::u64x2: PartialEq,
{
    let ra = regs[ia];
    let rb = regs[ib];
    let out = &mut regs[dst];
    match ty {
        0 => {
            let a: M::u32x4 = ld128(m, &ra);
            let b: M::u32x4 = ld128(m, &rb);
            let r: M::u32x4 = match group {
                1 => rot32(k, a),
                3 => arith(k, a, b),
                5 => words4(k, a),
                6 => lanewords4(k, a),
                7 => a.insert(b.extract(idx(imm, 0, 4)), idx(imm, 3, 4)),
                8 => {
                    let l: [u32; 4] = a.to_lanes();
                    let p = (imm % 4) as usize;
                    m.vec([l[p], l[(p + 1) % 4], l[(p + 3) % 4], l[(p + 2) % 4]])
                }
                9 => bytes_roundtrip(m, k, a, 16),
                10 => {
                    if (a == b) == (b == a) && a == a {
                        if a == b {
                            !a
                        } else {
                            a ^ b
                        }
                    } else {
                        a & b
                    }
                }
                _ => bit0(k, a, b),
            };
            st128(r, out)
        }
        1 => {
            let a: M::u64x2 = ld128(m, &ra);
            let b: M::u64x2 = ld128(m, &rb);
            let r: M::u64x2 = match group {
                1 => rot32(k, a),
                2 => a.rotate_each_word_right32(),
                3 => arith(k, a, b),
                7 => a.insert(b.extract(idx(imm, 0, 2)), idx(imm, 3, 2)),
                8 => {
                    let l: [u64; 2] = a.to_lanes();
                    m.vec([l[1], l[0]])
                }
                10 => {
                    if a == b {
                        !a
                    } else {
                        a ^ b
                    }
                }
                _ => bit0(k, a, b),
            };
            st128(r, out)
        }
        2 => {
            let a: M::u128x1 = ld128(m, &ra);
            let b: M::u128x1 = ld128(m, &rb);
            let r: M::u128x1 = match group {
                1 => rot32(k, a),
                2 => a.rotate_each_word_right32(),
                4 => swap(k, a),
                8 => {
                    let l: [u128; 1] = a.to_lanes();
                    m.vec([l[0].rotate_left(imm % 128)])
                }
                _ => bit0(k, a, b),
            };
            st128(r, out)
        }
        3 => {
            let a: M::u32x4x2 = ld256(m, &ra);
            let b: M::u32x4x2 = ld256(m, &rb);
            let r: M::u32x4x2 = match group {
                1 => rot32(k, a),
                3 => arith(k, a, b),
                7 => a.insert(b.extract(idx(imm, 0, 2)), idx(imm, 3, 2)),
                8 => {
                    let l: [M::u32x4; 2] = a.to_lanes();
                    M::u32x4x2::from_lanes([l[1], l[0]])
                }
                9 => bytes_roundtrip(m, k, a, 32),
                _ => bit0(k, a, b),
            };
            st256(r, out)
        }
        4 => {
            let a: M::u64x2x2 = ld256(m, &ra);
            let b: M::u64x2x2 = ld256(m, &rb);
            let r: M::u64x2x2 = match group {
                1 => rot32(k, a),
                2 => a.rotate_each_word_right32(),
                3 => arith(k, a, b),
                7 => a.insert(b.extract(idx(imm, 0, 2)), idx(imm, 3, 2)),
                8 => {
                    let l: [M::u64x2; 2] = a.to_lanes();
                    M::u64x2x2::from_lanes([l[1], l[0]])
                }
                9 => bytes_roundtrip(m, k, a, 32),
                _ => bit0(k, a, b),
            };
            st256(r, out)
        }
        5 => {
            let a: M::u64x4 = ld256(m, &ra);
            let b: M::u64x4 = ld256(m, &rb);
            let r: M::u64x4 = match group {
                1 => rot32(k, a),
                2 => a.rotate_each_word_right32(),
                3 => arith(k, a, b),
                5 => words4(k, a),
                7 => a.insert(b.extract(idx(imm, 0, 4)), idx(imm, 3, 4)),
                8 => {
                    let l: [u64; 4] = a.to_lanes();
                    let p = (imm % 4) as usize;
                    M::u64x4::from_lanes([l[p], l[(p + 2) % 4], l[(p + 1) % 4], l[(p + 3) % 4]])
                }
                9 => bytes_roundtrip(m, k, a, 32),
                _ => bit0(k, a, b),
            };
            st256(r, out)
        }
        6 => {
            let a: M::u128x2 = ld256(m, &ra);
            let b: M::u128x2 = ld256(m, &rb);
            let r: M::u128x2 = match group {
                1 => rot32(k, a),
                2 => a.rotate_each_word_right32(),
                4 => swap(k, a),
                7 => a.insert(b.extract(idx(imm, 0, 2)), idx(imm, 3, 2)),
                8 => {
                    let l: [M::u128x1; 2] = a.to_lanes();
                    M::u128x2::from_lanes([l[1], l[0]])
                }
                _ => bit0(k, a, b),
            };
            st256(r, out)
        }
        7 => {
            let a: M::u32x4x4 = ld512(m, &ra);
            let b: M::u32x4x4 = ld512(m, &rb);
            let r: M::u32x4x4 = match group {
                1 => rot32(k, a),
                3 => arith(k, a, b),
                6 => lanewords4(k, a),
                7 => a.insert(b.extract(idx(imm, 0, 4)), idx(imm, 3, 4)),
                8 => {
                    let l: [M::u32x4; 4] = a.to_lanes();
                    let p = (imm % 4) as usize;
                    M::u32x4x4::from_lanes([l[p], l[(p + 1) % 4], l[(p + 3) % 4], l[(p + 2) % 4]])
                }
                9 => bytes_roundtrip(m, k, a, 64),
                11 => {
                    if k % 2 == 0 {
                        // transpose4 of (a, b, a^b, !a): keep one of the four results
                        let (t0, t1, t2, t3) = M::u32x4x4::transpose4(a, b, a ^ b, !a);
                        match imm % 4 {
                            0 => t0,
                            1 => t1,
                            2 => t2,
                            _ => t3,
                        }
                    } else {
                        let s: [u32; 16] = a.to_scalars();
                        let mut bytes = [0u8; 64];
                        for i in 0..16 {
                            bytes[4 * i..4 * i + 4].copy_from_slice(&s[(i + imm as usize) % 16].to_le_bytes());
                        }
                        ld512(m, &bytes)
                    }
                }
                _ => bit0(k, a, b),
            };
            st512(r, out)
        }
        8 => {
            let a: M::u64x2x4 = ld512(m, &ra);
            let b: M::u64x2x4 = ld512(m, &rb);
            let r: M::u64x2x4 = match group {
                1 => rot32(k, a),
                2 => a.rotate_each_word_right32(),
                3 => arith(k, a, b),
                7 => a.insert(b.extract(idx(imm, 0, 4)), idx(imm, 3, 4)),
                8 => {
                    let l: [M::u64x2; 4] = a.to_lanes();
                    M::u64x2x4::from_lanes([l[3], l[0], l[1], l[2]])
                }
                _ => bit0(k, a, b),
            };
            st512(r, out)
        }
        _ => {
            let a: M::u128x4 = ld512(m, &ra);
            let b: M::u128x4 = ld512(m, &rb);
            let r: M::u128x4 = match group {
                1 => rot32(k, a),
                2 => a.rotate_each_word_right32(),
                4 => swap(k, a),
                7 => a.insert(b.extract(idx(imm, 0, 4)), idx(imm, 3, 4)),
                8 => {
                    let l: [M::u128x1; 4] = a.to_lanes();
                    M::u128x4::from_lanes([l[1], l[2], l[3], l[0]])
                }
                _ => bit0(k, a, b),
            };
            st512(r, out)
        }
    }
}

#[cfg(not(hostbuild_portable))]
fn exec_on(mi: usize, ty: usize, group: usize, k: u32, imm: u32, regs: &mut Regs, dst: usize, ia: usize, ib: usize) {
    use ppv_lite86::x86_64::{AVX, AVX2, SSE2, SSE41, SSSE3};
    unsafe {
        match mi {
            0 => exec(SSE2::instance(), ty, group, k, imm, regs, dst, ia, ib),
            1 => exec(SSSE3::instance(), ty, group, k, imm, regs, dst, ia, ib),
            2 => exec(SSE41::instance(), ty, group, k, imm, regs, dst, ia, ib),
            3 => exec(AVX::instance(), ty, group, k, imm, regs, dst, ia, ib),
            _ => exec(AVX2::instance(), ty, group, k, imm, regs, dst, ia, ib),
        }
    }
}
#[cfg(hostbuild_portable)]
fn exec_on(_mi: usize, ty: usize, group: usize, k: u32, imm: u32, regs: &mut Regs, dst: usize, ia: usize, ib: usize) {
    use ppv_lite86::generic::GenericMachine;
    unsafe { exec(GenericMachine::instance(), ty, group, k, imm, regs, dst, ia, ib) }
}

fn machines_available() -> usize {
    #[cfg(not(hostbuild_portable))]
    {
        if is_x86_feature_detected!("avx2") {
            5
        } else if is_x86_feature_detected!("avx") {
            4
        } else if is_x86_feature_detected!("sse4.1") {
            3
        } else if is_x86_feature_detected!("ssse3") {
            2
        } else {
            1
        }
    }
    #[cfg(hostbuild_portable)]
    {
        1
    }
}

impl Scenario for S8 {
    type World = World;
    fn name(&self) -> &'static str {
        "vecops"
    }
    fn gen_setup(&self, _mix: &str, st: &mut Streams) -> J {
        let mut init = Vec::new();
        for _ in 0..4 {
            let b = match st.swarm.below(4) {
                0 => vec![0u8; 64],
                1 => vec![0xff; 64],
                2 => (0..64u8).collect(),
                _ => st.data.bytes(64),
            };
            init.push(J::S(crate::kit::json::hex(&b)));
        }
        J::obj().set("regs", J::A(init)).set("nops", J::U(st.swarm.range(4, 40) as u128))
    }
    fn new_world(&self, setup: &J) -> World {
        let mut r: Regs = [[0u8; 64]; 4];
        for (i, j) in setup.arr("regs").iter().enumerate().take(4) {
            let mut b = crate::kit::json::unhex(j.as_str().unwrap_or(""));
            b.resize(64, 0);
            r[i].copy_from_slice(&b);
        }
        World { regs: vec![r; machines_available()], log: 0, steps: 0, nops: setup.u_or("nops", 16) as u64 }
    }
    fn gen_op(&self, w: &World, _mix: &str, st: &mut Streams) -> Option<Op> {
        if w.steps >= w.nops {
            return None;
        }
        let r = &mut st.ops;
        Some(Op::new(
            0,
            "vop",
            &[
                ("ty", r.below(10) as u128),
                ("group", r.below(12) as u128),
                ("k", r.below(8) as u128),
                ("imm", r.below(256) as u128),
                ("dst", r.below(4) as u128),
                ("a", r.below(4) as u128),
                ("b", r.below(4) as u128),
            ],
        ))
    }
    fn step(&self, w: &mut World, op: &Op, stats: &mut Stats) -> Step {
        if op.name != "vop" {
            return Step::Skip;
        }
        w.steps += 1;
        let ty = (op.get("ty") % 10) as usize;
        let group = (op.get("group") % 12) as usize;
        let (k, imm) = (op.get("k") as u32, op.get("imm") as u32);
        let (dst, ia, ib) = ((op.get("dst") % 4) as usize, (op.get("a") % 4) as usize, (op.get("b") % 4) as usize);
        stats.hit(&format!("op.{}.{}", TYPES[ty], GROUPS[group]));
        let mut outcomes: Vec<Result<(), String>> = Vec::new();
        for mi in 0..w.regs.len() {
            let regs = &mut w.regs[mi];
            outcomes.push(guarded(|| exec_on(mi, ty, group, k, imm, regs, dst, ia, ib)));
            stats.hit(&format!("host.{}.steps", MACHINES[mi]));
        }
        stats.state(&[17, ty as u64, group as u64, k as u64 % 8]);
        let panicked: Vec<usize> = (0..outcomes.len()).filter(|i| outcomes[*i].is_err()).collect();
        if !panicked.is_empty() && panicked.len() < outcomes.len() {
            let names: Vec<&str> = panicked.iter().map(|i| MACHINES[*i]).collect();
            return Step::Fail(Violation::new(
                &["C03"],
                "V2",
                format!("vector op panics on some backends only:{}:{}:{}", TYPES[ty], GROUPS[group], names.join("+")),
                format!("{} {} k={} imm={}: {}", TYPES[ty], GROUPS[group], k, imm, outcomes[panicked[0]].clone().unwrap_err()),
            ));
        }
        if panicked.len() == outcomes.len() {
            // every machine of this build refuses: the transcript records it (another build may not)
            w.log = (w.log.rotate_left(7) ^ op.hash()).wrapping_mul(0x9e37_79b9_7f4a_7c15) ^ 0xdead;
            stats.hit("probe.op_panics_on_every_machine_of_this_build");
            stats.hit(&format!("refused_everywhere.{}.{}", TYPES[ty], GROUPS[group]));
            return Step::Done;
        }
        let r0 = w.regs[0];
        for mi in 1..w.regs.len() {
            if w.regs[mi] != r0 {
                // majority vote for the report
                let mut odd = Vec::new();
                for mj in 0..w.regs.len() {
                    let same = (0..w.regs.len()).filter(|x| w.regs[*x] == w.regs[mj]).count();
                    if same * 2 <= w.regs.len() {
                        odd.push(MACHINES[mj]);
                    }
                }
                return Step::Fail(Violation::new(
                    &["C03"],
                    "V1",
                    format!("vector op differs between backends:{}:{}:{}", TYPES[ty], GROUPS[group], odd.join("+")),
                    format!("{} {} k={} imm={} on registers {} {}: machine {} differs from {}", TYPES[ty], GROUPS[group], k, imm, ia, ib, MACHINES[mi], MACHINES[0]),
                ));
            }
        }
        let flat: Vec<u8> = r0.iter().flat_map(|r| r.iter().copied()).collect();
        w.log = (w.log.rotate_left(7) ^ op.hash()).wrapping_mul(0x9e37_79b9_7f4a_7c15) ^ hash_bytes(&flat);
        Step::Done
    }
    fn log_digest(&self, w: &World) -> u64 {
        w.log
    }
    fn shrink_values(&self, _op: &Op, arg: &str, v: u128) -> Vec<u128> {
        let mut c: Vec<u128> = match arg {
            "ty" | "group" => vec![],
            _ => vec![0, 1],
        };
        c.retain(|x| *x < v);
        c
    }
}
