pub mod s1_chacha_stream;
pub mod s2_chacha_block;
pub mod hashes;
pub mod s4_hash_stream;
pub mod s3_hosts;
pub mod arena;
pub mod s5_mem;
pub mod s6_counters;
