pub mod s1_chacha_stream;
