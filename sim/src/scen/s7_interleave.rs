//! S7a `interleave`: one world containing instances of everything (ciphers, block-API states, hashes,
//! Threefish), all in one thread, steps interleaved by the scheduler at call granularity. Oracle: every
//! instance's transcript equals that of the same operation list replayed in isolation, one instance at a
//! time, in a fresh world on a fresh thread (C18, second half: "no instance observes another's state").
use super::s1_chacha_stream::S1;
use super::s2_chacha_block::S2;
use super::s4_hash_stream::S4;
use crate::hosts;
use crate::kit::json::{hex, unhex, J};
use crate::kit::rng::{pattern, Streams};
use crate::kit::sim::{guarded, hash_bytes, Op, Scenario, Stats, Step, Violation};
use crate::refm::skein::threefish_encrypt;
use cipher::generic_array::GenericArray;
use cipher::{BlockDecrypt, BlockEncrypt, NewBlockCipher};
use threefish_cipher::{Threefish1024, Threefish256, Threefish512};

// ------------------------------------------------------------------------------------------------
// Threefish sub-world
// ------------------------------------------------------------------------------------------------
pub enum Fish {
    F256(Threefish256),
    F512(Threefish512),
    F1024(Threefish1024),
}

pub struct TTask {
    pub size: usize,
    pub key: Vec<u8>,
    pub tweak: (u64, u64),
    pub real: Fish,
}

pub struct TWorld {
    pub tasks: Vec<TTask>,
    pub log: u64,
    pub tlogs: Vec<u64>,
    pub steps: u64,
    pub nops: u64,
}

pub struct ST;

fn make_fish(size: usize, key: &[u8], t: (u64, u64)) -> Fish {
    match size {
        32 => Fish::F256(if t == (0, 0) { Threefish256::new(GenericArray::from_slice(key)) } else { Threefish256::with_tweak(GenericArray::from_slice(key), t.0, t.1) }),
        64 => Fish::F512(if t == (0, 0) { Threefish512::new(GenericArray::from_slice(key)) } else { Threefish512::with_tweak(GenericArray::from_slice(key), t.0, t.1) }),
        _ => Fish::F1024(if t == (0, 0) { Threefish1024::new(GenericArray::from_slice(key)) } else { Threefish1024::with_tweak(GenericArray::from_slice(key), t.0, t.1) }),
    }
}

impl Fish {
    fn enc(&self, b: &mut [u8]) {
        match self {
            Fish::F256(f) => f.encrypt_block(GenericArray::from_mut_slice(b)),
            Fish::F512(f) => f.encrypt_block(GenericArray::from_mut_slice(b)),
            Fish::F1024(f) => f.encrypt_block(GenericArray::from_mut_slice(b)),
        }
    }
    fn dec(&self, b: &mut [u8]) {
        match self {
            Fish::F256(f) => f.decrypt_block(GenericArray::from_mut_slice(b)),
            Fish::F512(f) => f.decrypt_block(GenericArray::from_mut_slice(b)),
            Fish::F1024(f) => f.decrypt_block(GenericArray::from_mut_slice(b)),
        }
    }
}

impl Scenario for ST {
    type World = TWorld;
    fn name(&self) -> &'static str {
        "threefish"
    }
    fn gen_setup(&self, _mix: &str, st: &mut Streams) -> J {
        let sw = &mut st.swarm;
        let n = sw.range(1, 3);
        let mut tasks = Vec::new();
        // instances often share the key and differ only in the tweak (or vice versa): what a wrongly keyed cache would confuse
        let shared_key = st.data.bytes(128);
        for _ in 0..n {
            let size = *sw.pick(&[32usize, 64, 128]);
            // related keys: identical, differing only in the last / first word or in one bit, or unrelated
            let mut key = shared_key[..size].to_vec();
            match sw.below(6) {
                0 => {}
                1 => key[size - 1] ^= 1 << sw.below(8),
                2 => key[size - 8] ^= 0x80,
                3 => key[0] ^= 1,
                4 => {
                    let i = sw.below(size as u64) as usize;
                    key[i] ^= 1 << sw.below(8);
                }
                _ => key = st.data.bytes(size),
            }
            let tweak = match sw.below(3) {
                0 => (0u64, 0u64),
                1 => (1, 0),
                _ => (st.data.next(), st.data.next()),
            };
            tasks.push(J::obj().set("size", J::U(size as u128)).set("key", J::S(hex(&key))).set("t0", J::U(tweak.0 as u128)).set("t1", J::U(tweak.1 as u128)));
        }
        J::obj().set("tasks", J::A(tasks)).set("nops", J::U(sw.range(2, 12) as u128))
    }
    fn new_world(&self, setup: &J) -> TWorld {
        let mut tasks = Vec::new();
        for t in setup.arr("tasks") {
            let size = match t.u_or("size", 32) {
                64 => 64,
                128 => 128,
                _ => 32,
            };
            let mut key = unhex(t.s("key").unwrap_or(""));
            key.resize(size, 0);
            let tweak = (t.u_or("t0", 0) as u64, t.u_or("t1", 0) as u64);
            let real = make_fish(size, &key, tweak);
            tasks.push(TTask { size, key, tweak, real });
        }
        TWorld { tasks, log: 0, tlogs: vec![], steps: 0, nops: setup.u_or("nops", 6) as u64 }
    }
    fn gen_op(&self, w: &TWorld, _mix: &str, st: &mut Streams) -> Option<Op> {
        if w.tasks.is_empty() || w.steps >= w.nops {
            return None;
        }
        let ti = st.sched.below(w.tasks.len() as u64) as u32;
        let r = &mut st.ops;
        Some(match r.below(6) {
            0 => Op::new(ti, "rekey", &[("t0", st.data.next() as u128), ("t1", if r.chance(1, 2) { 0 } else { st.data.next() as u128 })]),
            1 | 2 => Op::new(ti, "dec", &[("dseed", st.data.next() as u128)]),
            _ => Op::new(ti, "enc", &[("dseed", st.data.next() as u128)]),
        })
    }
    fn step(&self, w: &mut TWorld, op: &Op, stats: &mut Stats) -> Step {
        let ti = op.t as usize;
        if ti >= w.tasks.len() {
            return Step::Skip;
        }
        w.steps += 1;
        let t = &mut w.tasks[ti];
        let mut rh = 0u64;
        let res = match op.name.as_str() {
            "enc" | "dec" => {
                stats.hit(if op.name == "enc" { "op.threefish_encrypt" } else { "op.threefish_decrypt" });
                let input = pattern(op.get("dseed") as u64 | 2, t.size);
                let mut b = input.clone();
                let r = guarded(|| {
                    if op.name == "enc" {
                        t.real.enc(&mut b)
                    } else {
                        t.real.dec(&mut b)
                    }
                });
                if let Err(m) = r {
                    return Step::Fail(Violation::new(&["C09"], "TF0", "threefish panics".into(), m));
                }
                rh = hash_bytes(&b);
                // round trip and reference (both are notes for other properties unless isolation disagrees)
                let mut back = b.clone();
                if op.name == "enc" {
                    t.real.dec(&mut back)
                } else {
                    t.real.enc(&mut back)
                }
                let kw: Vec<u64> = t.key.chunks(8).map(|c| u64::from_le_bytes(c.try_into().unwrap())).collect();
                let reference_ok = if op.name == "enc" {
                    let iw: Vec<u64> = input.chunks(8).map(|c| u64::from_le_bytes(c.try_into().unwrap())).collect();
                    let c = threefish_encrypt(&kw, t.tweak.0, t.tweak.1, &iw);
                    let mut cb = Vec::new();
                    for x in c {
                        cb.extend_from_slice(&x.to_le_bytes());
                    }
                    cb == b
                } else {
                    let iw: Vec<u64> = b.chunks(8).map(|c| u64::from_le_bytes(c.try_into().unwrap())).collect();
                    let c = threefish_encrypt(&kw, t.tweak.0, t.tweak.1, &iw);
                    let mut cb = Vec::new();
                    for x in c {
                        cb.extend_from_slice(&x.to_le_bytes());
                    }
                    cb == input
                };
                if back != input || !reference_ok {
                    Step::Fail(Violation::new(
                        &["C09", "C10"],
                        "TF1",
                        format!("threefish result wrong:{}:{}", t.size * 8, if back != input { "round trip" } else { "reference" }),
                        format!("Threefish-{} {} with tweak {:x?}", t.size * 8, op.name, t.tweak),
                    ))
                } else {
                    Step::Done
                }
            }
            "rekey" => {
                stats.hit("op.threefish_with_tweak");
                t.tweak = (op.get("t0") as u64, op.get("t1") as u64);
                let (size, key, tw) = (t.size, t.key.clone(), t.tweak);
                match guarded(|| make_fish(size, &key, tw)) {
                    Ok(f) => {
                        t.real = f;
                        Step::Done
                    }
                    Err(m) => Step::Fail(Violation::new(&["C09"], "TF0", "with_tweak panics".into(), m)),
                }
            }
            _ => return Step::Skip,
        };
        if ti >= w.tlogs.len() {
            w.tlogs.resize(ti + 1, 0);
        }
        w.tlogs[ti] = (w.tlogs[ti].rotate_left(7) ^ op.hash_nt()).wrapping_mul(0x9e37_79b9_7f4a_7c15) ^ rh;
        w.log = (w.log.rotate_left(7) ^ op.hash()).wrapping_mul(0x9e37_79b9_7f4a_7c15) ^ rh;
        res
    }
    fn log_digest(&self, w: &TWorld) -> u64 {
        w.log
    }
    fn task_logs(&self, w: &TWorld) -> Vec<u64> {
        w.tlogs.clone()
    }
}

// ------------------------------------------------------------------------------------------------
// the composite world
// ------------------------------------------------------------------------------------------------
pub struct IWorld {
    pub host: u8,
    pub setup: J,
    pub a: <S1 as Scenario>::World,
    pub b: <S2 as Scenario>::World,
    pub c: <S4 as Scenario>::World,
    pub d: TWorld,
    /// the interleaved history: (sub-world, op)
    pub history: Vec<(usize, Op)>,
    pub log: u64,
}

pub struct S7;

const SUBS: [&str; 4] = ["chacha_stream", "chacha_block", "hash_stream", "threefish"];

/// replay the operations of one instance alone, in a fresh world on a fresh thread; returns (task log, failure)
fn isolated(setup: &J, host: u8, sub: usize, task: u32, history: &[(usize, Op)]) -> (u64, Option<Violation>) {
    std::thread::scope(|sc| sc.spawn(move || isolated_here(setup, host, sub, task, history)).join().expect("isolation thread"))
}

/// all instances of the world, one after the other, each in its own fresh sub-world, on ONE fresh thread
fn isolated_all(setup: &J, host: u8, counts: [usize; 4], history: &[(usize, Op)]) -> Vec<(usize, usize, u64, Option<Violation>)> {
    std::thread::scope(|sc| {
        sc.spawn(move || {
            let mut out = Vec::new();
            for sub in 0..4 {
                for task in 0..counts[sub] {
                    let (l, f) = isolated_here(setup, host, sub, task as u32, history);
                    out.push((sub, task, l, f));
                }
            }
            out
        })
        .join()
        .expect("isolation thread")
    })
}

pub fn isolated_here(setup: &J, host: u8, sub: usize, task: u32, history: &[(usize, Op)]) -> (u64, Option<Violation>) {
    // only this instance exists in the isolated world: it is task 0 there
    let ops: Vec<Op> = history
        .iter()
        .filter(|(s, o)| *s == sub && o.t == task)
        .map(|(_, o)| {
            let mut o = o.clone();
            o.t = 0;
            o
        })
        .collect();
    let full = setup.get(SUBS[sub]).cloned().unwrap_or(J::obj());
    let only: Vec<J> = full.arr("tasks").get(task as usize).cloned().into_iter().collect();
    let sub_setup = full.set("tasks", J::A(only)).set("host", J::U(host as u128));
    let task = 0u32;
    {
        {
            hosts::set_current(host);
            let mut scratch = Stats::default();
            macro_rules! go {
                ($s:expr) => {{
                    let s = $s;
                    let mut w = s.new_world(&sub_setup);
                    let mut fail = None;
                    for op in &ops {
                        if let Step::Fail(v) = s.step(&mut w, op, &mut scratch) {
                            fail = Some(v);
                            break;
                        }
                    }
                    if fail.is_none() {
                        if let Step::Fail(v) = s.finish(&mut w, &mut scratch) {
                            fail = Some(v);
                        }
                    }
                    (s.task_logs(&w).get(task as usize).copied().unwrap_or(0), fail)
                }};
            }
            match sub {
                0 => go!(S1),
                1 => go!(S2),
                2 => go!(S4),
                _ => go!(ST),
            }
        }
    }
}

/// the same, but every instance alone in a brand-new PROCESS (statics, one-time initialisation and
/// feature-detection caches are cold, and no other instance has ever existed there)
fn isolated_cold(setup: &J, host: u8, counts: [usize; 4], history: &[(usize, Op)]) -> Result<Vec<(usize, usize, u64, bool)>, String> {
    let mut out = Vec::new();
    for sub in 0..4 {
        for task in 0..counts[sub] {
            let (log, failed) = isolated_cold_one(setup, host, sub, task, history)?;
            out.push((sub, task, log, failed));
        }
    }
    Ok(out)
}

/// one instance alone in a brand-new process: (transcript, did an inner invariant fail there?)
fn isolated_cold_one(setup: &J, host: u8, sub: usize, task: usize, history: &[(usize, Op)]) -> Result<(u64, bool), String> {
    use std::io::Write;
    let exe = std::env::current_exe().map_err(|e| e.to_string())?;
    let hist = J::A(history.iter().map(|(s, o)| o.to_json().set("sub", J::U(*s as u128))).collect());
    let req = J::obj().set("setup", setup.clone()).set("host", J::U(host as u128)).set("sub", J::U(sub as u128)).set("task", J::U(task as u128)).set("history", hist);
    let mut child = std::process::Command::new(&exe)
        .arg("isolate")
        .stdin(std::process::Stdio::piped())
        .stdout(std::process::Stdio::piped())
        .stderr(std::process::Stdio::null())
        .spawn()
        .map_err(|e| e.to_string())?;
    child.stdin.take().unwrap().write_all(req.to_string().as_bytes()).map_err(|e| e.to_string())?;
    let o = child.wait_with_output().map_err(|e| e.to_string())?;
    let text = String::from_utf8_lossy(&o.stdout).to_string();
    let j = J::parse(text.trim()).map_err(|e| format!("isolate child: {} ({:?})", e, text))?;
    let log = u64::from_str_radix(j.s("log").unwrap_or("0"), 16).unwrap_or(0);
    Ok((log, j.u_or("failed", 0) == 1))
}

/// entry point of the child process
pub fn isolate_child(req: &J) -> J {
    let setup = req.get("setup").cloned().unwrap_or(J::obj());
    let history: Vec<(usize, Op)> = req
        .arr("history")
        .iter()
        .filter_map(|j| {
            let sub = j.u("sub")? as usize;
            let mut o = Op::from_json(j)?;
            o.args.retain(|a| a.0 != "sub");
            Some((sub, o))
        })
        .collect();
    let (log, fail) = isolated_here(&setup, req.u_or("host", 0) as u8, req.u_or("sub", 0) as usize, req.u_or("task", 0) as u32, &history);
    J::obj().set("log", J::S(format!("{:016x}", log))).set("failed", J::U(fail.is_some() as u128))
}

impl S7 {
    fn route(&self, w: &mut IWorld, sub: usize, op: &Op, stats: &mut Stats) -> Step {
        match sub {
            0 => S1.step(&mut w.a, op, stats),
            1 => S2.step(&mut w.b, op, stats),
            2 => S4.step(&mut w.c, op, stats),
            _ => ST.step(&mut w.d, op, stats),
        }
    }
    fn logs(&self, w: &IWorld, sub: usize) -> Vec<u64> {
        match sub {
            0 => S1.task_logs(&w.a),
            1 => S2.task_logs(&w.b),
            2 => S4.task_logs(&w.c),
            _ => ST.task_logs(&w.d),
        }
    }
}

impl Scenario for S7 {
    type World = IWorld;
    fn name(&self) -> &'static str {
        "interleave"
    }
    fn gen_setup(&self, _mix: &str, st: &mut Streams) -> J {
        let host = hosts::pick_level(&mut st.swarm);
        let a = S1.gen_setup("C18", st);
        let b = S2.gen_setup("C18", st);
        let c = S4.gen_setup("C18", st);
        let d = ST.gen_setup("C18", st);
        // a fraction of the runs repeats the isolation in brand-new processes (cold statics)
        let cold = st.swarm.fork("cold").chance(1, 48);
        J::obj().set("host", J::U(host as u128)).set("cold", J::U(cold as u128)).set(SUBS[0], a).set(SUBS[1], b).set(SUBS[2], c).set(SUBS[3], d)
    }
    fn new_world(&self, setup: &J) -> IWorld {
        let host = setup.u_or("host", 0) as u8;
        hosts::set_current(host);
        let sub = |i: usize| setup.get(SUBS[i]).cloned().unwrap_or(J::obj()).set("host", J::U(host as u128));
        IWorld { host, setup: setup.clone(), a: S1.new_world(&sub(0)), b: S2.new_world(&sub(1)), c: S4.new_world(&sub(2)), d: ST.new_world(&sub(3)), history: vec![], log: 0 }
    }
    fn gen_op(&self, w: &IWorld, _mix: &str, st: &mut Streams) -> Option<Op> {
        // the scheduler decides which sub-world (kind of instance) makes the next call
        let start = st.sched.below(4) as usize;
        for k in 0..4 {
            let sub = (start + k) % 4;
            let op = match sub {
                0 => S1.gen_op(&w.a, "C18", st),
                1 => S2.gen_op(&w.b, "C18", st),
                2 => S4.gen_op(&w.c, "C18", st),
                _ => ST.gen_op(&w.d, "C18", st),
            };
            if let Some(mut op) = op {
                op.args.push(("sub".to_string(), sub as u128));
                return Some(op);
            }
        }
        None
    }
    fn step(&self, w: &mut IWorld, op: &Op, stats: &mut Stats) -> Step {
        hosts::set_current(w.host);
        let sub = (op.get("sub") % 4) as usize;
        let mut inner = op.clone();
        inner.args.retain(|a| a.0 != "sub");
        // operations that fork instances are not part of this scenario (isolation is per root instance)
        if inner.name == "clone" || inner.name == "derive" {
            return Step::Skip;
        }
        stats.hit(&format!("interleave.step.{}", SUBS[sub]));
        if let Some((last, _)) = w.history.last() {
            if *last != sub {
                stats.hit("probe.switch_between_kinds_of_instances");
            }
        }
        // everything that reaches a sub-world is part of the history (a sub-world may log an operation it skips)
        w.history.push((sub, inner.clone()));
        let r = self.route(w, sub, &inner, stats);
        match r {
            Step::Skip => Step::Skip,
            Step::Done => {
                w.log = (w.log.rotate_left(7) ^ op.hash()).wrapping_mul(0x9e37_79b9_7f4a_7c15);
                stats.state(&[15, sub as u64, w.history.len().min(40) as u64 / 4, crate::kit::rng::fnv(&inner.name) & 0xff]);
                Step::Done
            }
            Step::Fail(v) => {
                // does this instance fail on its own as well - alone in a brand-new process, where nothing another
                // instance did can have left a trace? then it is the inner property's business
                let alone_fails = match isolated_cold_one(&w.setup, w.host, sub, inner.t as usize, &w.history) {
                    Ok((_, failed)) => failed,
                    Err(e) => panic!("cold-process isolation failed (harness error): {}", e),
                };
                match alone_fails {
                    true => Step::Fail(v),
                    false => Step::Fail(Violation::new(
                        &["C18"],
                        "L2",
                        format!("instance fails only when interleaved with others:{}:{}", SUBS[sub], v.invariant),
                        format!("{} task {}: {} ({}); the same operations replayed alone in a new process pass", SUBS[sub], inner.t, v.signature, v.detail),
                    )),
                }
            }
        }
    }
    fn finish(&self, w: &mut IWorld, stats: &mut Stats) -> Step {
        hosts::set_current(w.host);
        // finish the interleaved sub-worlds (finalises every hash instance)
        let mut inner_fail = None;
        if let Step::Fail(v) = S4.finish(&mut w.c, stats) {
            inner_fail = Some(v);
        }
        let counts = [w.a.tasks.len(), w.b.tasks.len(), w.c.tasks.len(), w.d.tasks.len()];
        let all = isolated_all(&w.setup, w.host, counts, &w.history);
        {
            for (sub, task, alone, fail) in all {
                let together = self.logs(w, sub).get(task).copied().unwrap_or(0);
                stats.hit("probe.instance_replayed_in_isolation");
                if fail.is_some() && inner_fail.is_some() {
                    continue;
                }
                if together != alone {
                    return Step::Fail(Violation::new(
                        &["C18"],
                        "L1",
                        format!("instance transcript depends on other instances:{}", SUBS[sub]),
                        format!("{} task {}: transcript when interleaved {:016x}, when replayed alone on a fresh thread {:016x}", SUBS[sub], task, together, alone),
                    ));
                }
            }
        }
        if inner_fail.is_none() && w.setup.u_or("cold", 0) == 1 {
            match isolated_cold(&w.setup, w.host, counts, &w.history) {
                Ok(all) => {
                    for (sub, task, alone, failed) in all {
                        stats.hit("probe.instance_replayed_alone_in_a_cold_process");
                        let together = self.logs(w, sub).get(task).copied().unwrap_or(0);
                        if !failed && together != alone {
                            return Step::Fail(Violation::new(
                                &["C18"],
                                "L3",
                                format!("instance transcript differs from a cold process that only ever held this instance:{}", SUBS[sub]),
                                format!("{} task {}: transcript in the shared process {:016x}, alone in a new process {:016x}", SUBS[sub], task, together, alone),
                            ));
                        }
                    }
                }
                Err(e) => panic!("cold-process isolation failed (harness error): {}", e),
            }
        }
        match inner_fail {
            Some(v) => Step::Fail(v),
            None => Step::Done,
        }
    }
    fn judge_in_child(&self) -> bool {
        true
    }
    fn log_digest(&self, w: &IWorld) -> u64 {
        w.log ^ S1.log_digest(&w.a) ^ S2.log_digest(&w.b).rotate_left(11) ^ S4.log_digest(&w.c).rotate_left(23) ^ ST.log_digest(&w.d).rotate_left(37)
    }
    fn shrink_setup(&self, setup: &J, ops: &[Op]) -> Vec<(J, Vec<Op>)> {
        if setup.u_or("host", 0) != 0 {
            vec![(setup.clone().set("host", J::U(0)), ops.to_vec())]
        } else {
            vec![]
        }
    }
    fn shrink_values(&self, op: &Op, arg: &str, v: u128) -> Vec<u128> {
        if arg == "sub" {
            return vec![];
        }
        match (op.get("sub") % 4) as usize {
            0 => S1.shrink_values(op, arg, v),
            1 => S2.shrink_values(op, arg, v),
            2 => S4.shrink_values(op, arg, v),
            _ => vec![],
        }
    }
}
