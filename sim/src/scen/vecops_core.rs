//! The machine-generic interpreter of vector-operation programs (shared by the simulator worker and by the
//! foreign-host program `miribe`, which includes this file by path). Depends on ppv-lite86 only.
#![allow(dead_code)]
use ppv_lite86::*;

pub type Regs = [[u8; 64]; 4];

fn w128(b: &[u8]) -> vec128_storage {
    let mut w = [0u32; 4];
    for i in 0..4 {
        w[i] = u32::from_le_bytes([b[4 * i], b[4 * i + 1], b[4 * i + 2], b[4 * i + 3]]);
    }
    vec128_storage::from(w)
}
fn b128(s: vec128_storage, out: &mut [u8]) {
    let w: [u32; 4] = s.into();
    for i in 0..4 {
        out[4 * i..4 * i + 4].copy_from_slice(&w[i].to_le_bytes());
    }
}
pub fn ld128<M: Machine, V: Store<vec128_storage>>(m: M, b: &[u8]) -> V {
    m.unpack(w128(&b[..16]))
}
pub fn ld256<M: Machine, V: Store<vec256_storage>>(m: M, b: &[u8]) -> V {
    m.unpack(vec256_storage::new128([w128(&b[..16]), w128(&b[16..32])]))
}
pub fn ld512<M: Machine, V: Store<vec512_storage>>(m: M, b: &[u8]) -> V {
    m.unpack(vec512_storage::new128([w128(&b[..16]), w128(&b[16..32]), w128(&b[32..48]), w128(&b[48..64])]))
}
pub fn st128<V: Into<vec128_storage>>(v: V, out: &mut [u8; 64]) {
    b128(v.into(), &mut out[..16]);
}
pub fn st256<V: Into<vec256_storage>>(v: V, out: &mut [u8; 64]) {
    let s: vec256_storage = v.into();
    let [a, b] = s.split128();
    b128(a, &mut out[..16]);
    b128(b, &mut out[16..32]);
}
pub fn st512<V: Into<vec512_storage>>(v: V, out: &mut [u8; 64]) {
    let s: vec512_storage = v.into();
    let [a, b, c, d] = s.split128();
    b128(a, &mut out[..16]);
    b128(b, &mut out[16..32]);
    b128(c, &mut out[32..48]);
    b128(d, &mut out[48..64]);
}

fn bit0<V: BitOps0>(k: u32, a: V, b: V) -> V {
    match k % 6 {
        0 => a ^ b,
        1 => a & b,
        2 => a | b,
        3 => !a,
        4 => a.andnot(b),
        _ => {
            let mut x = a;
            x ^= b;
            x
        }
    }
}
fn rot32<V: RotateEachWord32>(k: u32, a: V) -> V {
    match k % 8 {
        0 => a.rotate_each_word_right7(),
        1 => a.rotate_each_word_right8(),
        2 => a.rotate_each_word_right11(),
        3 => a.rotate_each_word_right12(),
        4 => a.rotate_each_word_right16(),
        5 => a.rotate_each_word_right20(),
        6 => a.rotate_each_word_right24(),
        _ => a.rotate_each_word_right25(),
    }
}
fn arith<V: ArithOps>(k: u32, a: V, b: V) -> V {
    match k % 3 {
        0 => a + b,
        1 => {
            let mut x = a;
            x += b;
            x
        }
        _ => a.bswap(),
    }
}
fn swap<V: Swap64>(k: u32, a: V) -> V {
    match k % 7 {
        0 => a.swap1(),
        1 => a.swap2(),
        2 => a.swap4(),
        3 => a.swap8(),
        4 => a.swap16(),
        5 => a.swap32(),
        _ => a.swap64(),
    }
}
fn words4<V: Words4>(k: u32, a: V) -> V {
    match k % 3 {
        0 => a.shuffle1230(),
        1 => a.shuffle2301(),
        _ => a.shuffle3012(),
    }
}
fn lanewords4<V: LaneWords4>(k: u32, a: V) -> V {
    match k % 3 {
        0 => a.shuffle_lane_words1230(),
        1 => a.shuffle_lane_words2301(),
        _ => a.shuffle_lane_words3012(),
    }
}
fn bytes_roundtrip<V: StoreBytes, M: Machine>(m: M, k: u32, a: V, size: usize) -> V {
    // write in one byte order, read back in the other (or the same): a pure byte permutation
    let mut buf = [0u8; 64];
    match k % 4 {
        0 => {
            a.write_le(&mut buf[..size]);
            m.read_le(&buf[..size])
        }
        1 => {
            a.write_be(&mut buf[..size]);
            m.read_be(&buf[..size])
        }
        2 => {
            a.write_le(&mut buf[..size]);
            m.read_be(&buf[..size])
        }
        _ => {
            a.write_be(&mut buf[..size]);
            m.read_le(&buf[..size])
        }
    }
}

/// group numbering (shared by all types; a type that lacks a group maps it to bit0)
pub const GROUPS: [&str; 12] = ["bit0", "rot32", "rot64", "arith", "swap", "words4", "lanewords4", "extract_insert", "lanes", "bytes", "eq", "special"];

/// lane index for extract/insert: in range, unless bit 7 of imm is set - then any small index, possibly out of range
/// (every backend must then behave alike: all refuse, or all return the same)
fn idx(imm: u32, shift: u32, lanes: u32) -> u32 {
    if imm & 0x80 != 0 {
        (imm >> shift) % 8
    } else {
        (imm >> shift) % lanes
    }
}

pub fn exec<M: Machine>(m: M, ty: usize, group: usize, k: u32, imm: u32, regs: &mut Regs, dst: usize, ia: usize, ib: usize)
where
    M::u32x4: PartialEq,
    M::u64x2: PartialEq,
{
    let ra = regs[ia];
    let rb = regs[ib];
    let out = &mut regs[dst];
    match ty {
        0 => {
            let a: M::u32x4 = ld128(m, &ra);
            let b: M::u32x4 = ld128(m, &rb);
            let r: M::u32x4 = match group {
                1 => rot32(k, a),
                3 => arith(k, a, b),
                5 => words4(k, a),
                6 => lanewords4(k, a),
                7 => a.insert(b.extract(idx(imm, 0, 4)), idx(imm, 3, 4)),
                8 => {
                    let l: [u32; 4] = a.to_lanes();
                    let p = (imm % 4) as usize;
                    m.vec([l[p], l[(p + 1) % 4], l[(p + 3) % 4], l[(p + 2) % 4]])
                }
                9 => bytes_roundtrip(m, k, a, 16),
                10 => {
                    if (a == b) == (b == a) && a == a {
                        if a == b {
                            !a
                        } else {
                            a ^ b
                        }
                    } else {
                        a & b
                    }
                }
                _ => bit0(k, a, b),
            };
            st128(r, out)
        }
        1 => {
            let a: M::u64x2 = ld128(m, &ra);
            let b: M::u64x2 = ld128(m, &rb);
            let r: M::u64x2 = match group {
                1 => rot32(k, a),
                2 => a.rotate_each_word_right32(),
                3 => arith(k, a, b),
                7 => a.insert(b.extract(idx(imm, 0, 2)), idx(imm, 3, 2)),
                8 => {
                    let l: [u64; 2] = a.to_lanes();
                    m.vec([l[1], l[0]])
                }
                10 => {
                    if a == b {
                        !a
                    } else {
                        a ^ b
                    }
                }
                _ => bit0(k, a, b),
            };
            st128(r, out)
        }
        2 => {
            let a: M::u128x1 = ld128(m, &ra);
            let b: M::u128x1 = ld128(m, &rb);
            let r: M::u128x1 = match group {
                1 => rot32(k, a),
                2 => a.rotate_each_word_right32(),
                4 => swap(k, a),
                8 => {
                    let l: [u128; 1] = a.to_lanes();
                    m.vec([l[0].rotate_left(imm % 128)])
                }
                _ => bit0(k, a, b),
            };
            st128(r, out)
        }
        3 => {
            let a: M::u32x4x2 = ld256(m, &ra);
            let b: M::u32x4x2 = ld256(m, &rb);
            let r: M::u32x4x2 = match group {
                1 => rot32(k, a),
                3 => arith(k, a, b),
                7 => a.insert(b.extract(idx(imm, 0, 2)), idx(imm, 3, 2)),
                8 => {
                    let l: [M::u32x4; 2] = a.to_lanes();
                    M::u32x4x2::from_lanes([l[1], l[0]])
                }
                9 => bytes_roundtrip(m, k, a, 32),
                _ => bit0(k, a, b),
            };
            st256(r, out)
        }
        4 => {
            let a: M::u64x2x2 = ld256(m, &ra);
            let b: M::u64x2x2 = ld256(m, &rb);
            let r: M::u64x2x2 = match group {
                1 => rot32(k, a),
                2 => a.rotate_each_word_right32(),
                3 => arith(k, a, b),
                7 => a.insert(b.extract(idx(imm, 0, 2)), idx(imm, 3, 2)),
                8 => {
                    let l: [M::u64x2; 2] = a.to_lanes();
                    M::u64x2x2::from_lanes([l[1], l[0]])
                }
                9 => bytes_roundtrip(m, k, a, 32),
                _ => bit0(k, a, b),
            };
            st256(r, out)
        }
        5 => {
            let a: M::u64x4 = ld256(m, &ra);
            let b: M::u64x4 = ld256(m, &rb);
            let r: M::u64x4 = match group {
                1 => rot32(k, a),
                2 => a.rotate_each_word_right32(),
                3 => arith(k, a, b),
                5 => words4(k, a),
                7 => a.insert(b.extract(idx(imm, 0, 4)), idx(imm, 3, 4)),
                8 => {
                    let l: [u64; 4] = a.to_lanes();
                    let p = (imm % 4) as usize;
                    M::u64x4::from_lanes([l[p], l[(p + 2) % 4], l[(p + 1) % 4], l[(p + 3) % 4]])
                }
                9 => bytes_roundtrip(m, k, a, 32),
                _ => bit0(k, a, b),
            };
            st256(r, out)
        }
        6 => {
            let a: M::u128x2 = ld256(m, &ra);
            let b: M::u128x2 = ld256(m, &rb);
            let r: M::u128x2 = match group {
                1 => rot32(k, a),
                2 => a.rotate_each_word_right32(),
                4 => swap(k, a),
                7 => a.insert(b.extract(idx(imm, 0, 2)), idx(imm, 3, 2)),
                8 => {
                    let l: [M::u128x1; 2] = a.to_lanes();
                    M::u128x2::from_lanes([l[1], l[0]])
                }
                _ => bit0(k, a, b),
            };
            st256(r, out)
        }
        7 => {
            let a: M::u32x4x4 = ld512(m, &ra);
            let b: M::u32x4x4 = ld512(m, &rb);
            let r: M::u32x4x4 = match group {
                1 => rot32(k, a),
                3 => arith(k, a, b),
                6 => lanewords4(k, a),
                7 => a.insert(b.extract(idx(imm, 0, 4)), idx(imm, 3, 4)),
                8 => {
                    let l: [M::u32x4; 4] = a.to_lanes();
                    let p = (imm % 4) as usize;
                    M::u32x4x4::from_lanes([l[p], l[(p + 1) % 4], l[(p + 3) % 4], l[(p + 2) % 4]])
                }
                9 => bytes_roundtrip(m, k, a, 64),
                11 => {
                    if k % 2 == 0 {
                        // transpose4 of (a, b, a^b, !a): keep one of the four results
                        let (t0, t1, t2, t3) = M::u32x4x4::transpose4(a, b, a ^ b, !a);
                        match imm % 4 {
                            0 => t0,
                            1 => t1,
                            2 => t2,
                            _ => t3,
                        }
                    } else {
                        let s: [u32; 16] = a.to_scalars();
                        let mut bytes = [0u8; 64];
                        for i in 0..16 {
                            bytes[4 * i..4 * i + 4].copy_from_slice(&s[(i + imm as usize) % 16].to_le_bytes());
                        }
                        ld512(m, &bytes)
                    }
                }
                _ => bit0(k, a, b),
            };
            st512(r, out)
        }
        8 => {
            let a: M::u64x2x4 = ld512(m, &ra);
            let b: M::u64x2x4 = ld512(m, &rb);
            let r: M::u64x2x4 = match group {
                1 => rot32(k, a),
                2 => a.rotate_each_word_right32(),
                3 => arith(k, a, b),
                7 => a.insert(b.extract(idx(imm, 0, 4)), idx(imm, 3, 4)),
                8 => {
                    let l: [M::u64x2; 4] = a.to_lanes();
                    M::u64x2x4::from_lanes([l[3], l[0], l[1], l[2]])
                }
                _ => bit0(k, a, b),
            };
            st512(r, out)
        }
        _ => {
            let a: M::u128x4 = ld512(m, &ra);
            let b: M::u128x4 = ld512(m, &rb);
            let r: M::u128x4 = match group {
                1 => rot32(k, a),
                2 => a.rotate_each_word_right32(),
                4 => swap(k, a),
                7 => a.insert(b.extract(idx(imm, 0, 4)), idx(imm, 3, 4)),
                8 => {
                    let l: [M::u128x1; 4] = a.to_lanes();
                    M::u128x4::from_lanes([l[1], l[2], l[3], l[0]])
                }
                _ => bit0(k, a, b),
            };
            st512(r, out)
        }
    }
}


fn ldb<M: Machine, V: StoreBytes>(m: M, be: bool, b: &[u8]) -> V {
    if be {
        m.read_be(b)
    } else {
        m.read_le(b)
    }
}
fn stb<V: StoreBytes>(v: V, be: bool, out: &mut [u8]) {
    if be {
        v.write_be(out)
    } else {
        v.write_le(out)
    }
}

/// The byte-I/O interpreter: operands come from memory bytes through `read_le` / `read_be` and the result goes back through
/// `write_le` / `write_be` - the way a portable algorithm uses the vector types - so the register files must agree
/// between hosts of either byte order (the storage-conversion loads of `exec` are a native-memory pun, which is only
/// comparable between hosts of the same byte order). Only the five types whose trait bounds include `StoreBytes`.
pub fn exec_bytes<M: Machine>(m: M, ty: usize, group: usize, k: u32, imm: u32, regs: &mut Regs, dst: usize, ia: usize, ib: usize) {
    let ra = regs[ia];
    let rb = regs[ib];
    let out = &mut regs[dst];
    let (rd_be, wr_be) = (imm & 0x20 != 0, imm & 0x40 != 0);
    match ty % 5 {
        0 => {
            let a: M::u32x4 = ldb(m, rd_be, &ra[..16]);
            let b: M::u32x4 = ldb(m, rd_be, &rb[..16]);
            let r: M::u32x4 = match group {
                1 => rot32(k, a),
                3 => arith(k, a, b),
                5 => words4(k, a),
                6 => lanewords4(k, a),
                7 => a.insert(b.extract(idx(imm & 0x1f, 0, 4)), idx(imm & 0x1f, 3, 4)),
                8 => {
                    let l: [u32; 4] = a.to_lanes();
                    let p = (imm % 4) as usize;
                    m.vec([l[p], l[(p + 1) % 4].wrapping_add(l[p]), l[(p + 3) % 4], l[(p + 2) % 4]])
                }
                _ => bit0(k, a, b),
            };
            stb(r, wr_be, &mut out[..16])
        }
        1 => {
            let a: M::u32x4x2 = ldb(m, rd_be, &ra[..32]);
            let b: M::u32x4x2 = ldb(m, rd_be, &rb[..32]);
            let r: M::u32x4x2 = match group {
                1 => rot32(k, a),
                3 => arith(k, a, b),
                7 => a.insert(b.extract(idx(imm & 0x1f, 0, 2)), idx(imm & 0x1f, 3, 2)),
                8 => {
                    let l: [M::u32x4; 2] = a.to_lanes();
                    M::u32x4x2::from_lanes([l[1], l[0] + l[1]])
                }
                _ => bit0(k, a, b),
            };
            stb(r, wr_be, &mut out[..32])
        }
        2 => {
            let a: M::u64x2x2 = ldb(m, rd_be, &ra[..32]);
            let b: M::u64x2x2 = ldb(m, rd_be, &rb[..32]);
            let r: M::u64x2x2 = match group {
                1 => rot32(k, a),
                2 => a.rotate_each_word_right32(),
                3 => arith(k, a, b),
                7 => a.insert(b.extract(idx(imm & 0x1f, 0, 2)), idx(imm & 0x1f, 3, 2)),
                8 => {
                    let l: [M::u64x2; 2] = a.to_lanes();
                    let x: [u64; 2] = l[0].to_lanes();
                    M::u64x2x2::from_lanes([l[1] + l[0], m.vec([x[1].rotate_left(imm % 64), x[0]])])
                }
                _ => bit0(k, a, b),
            };
            stb(r, wr_be, &mut out[..32])
        }
        3 => {
            let a: M::u64x4 = ldb(m, rd_be, &ra[..32]);
            let b: M::u64x4 = ldb(m, rd_be, &rb[..32]);
            let r: M::u64x4 = match group {
                1 => rot32(k, a),
                2 => a.rotate_each_word_right32(),
                3 => arith(k, a, b),
                5 => words4(k, a),
                7 => a.insert(b.extract(idx(imm & 0x1f, 0, 4)), idx(imm & 0x1f, 3, 4)),
                8 => {
                    let l: [u64; 4] = a.to_lanes();
                    let p = (imm % 4) as usize;
                    M::u64x4::from_lanes([l[p].rotate_left(imm % 64), l[(p + 2) % 4], l[(p + 1) % 4].wrapping_add(l[p]), l[(p + 3) % 4]])
                }
                _ => bit0(k, a, b),
            };
            stb(r, wr_be, &mut out[..32])
        }
        _ => {
            let a: M::u32x4x4 = ldb(m, rd_be, &ra[..64]);
            let b: M::u32x4x4 = ldb(m, rd_be, &rb[..64]);
            let r: M::u32x4x4 = match group {
                1 => rot32(k, a),
                3 => arith(k, a, b),
                6 => lanewords4(k, a),
                7 => a.insert(b.extract(idx(imm & 0x1f, 0, 4)), idx(imm & 0x1f, 3, 4)),
                8 => {
                    let l: [M::u32x4; 4] = a.to_lanes();
                    let p = (imm % 4) as usize;
                    M::u32x4x4::from_lanes([l[p], l[(p + 1) % 4] + l[p], l[(p + 3) % 4], l[(p + 2) % 4]])
                }
                11 => {
                    let (t0, t1, t2, t3) = M::u32x4x4::transpose4(a, b, a ^ b, a + b);
                    match imm % 4 {
                        0 => t0,
                        1 => t1,
                        2 => t2,
                        _ => t3,
                    }
                }
                _ => bit0(k, a, b),
            };
            stb(r, wr_be, &mut out[..64])
        }
    }
}
pub const BYTE_TYPES: [&str; 5] = ["u32x4", "u32x4x2", "u64x2x2", "u64x4", "u32x4x4"];
