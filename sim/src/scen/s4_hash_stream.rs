//! S4 `hash_stream`: update/chain/clone/reset/finalize_reset/finalize/drop histories over interleaved
//! instances of all hash types (C08; also the workload for C03 and C18).
use super::hashes::{new_hash, oneshot, Family, HashObj, TYPES};
use crate::hosts;
use crate::kit::json::J;
use crate::kit::rng::{pattern, Streams};
use crate::kit::sim::{guarded, Op, Scenario, Stats, Step, Violation};

pub struct Task {
    pub ty: usize,
    pub real: Option<Box<dyn HashObj>>,
    /// model: bytes absorbed since construction / reset
    pub msg: Vec<u8>,
    /// model: counter jumps (hook H2) made so far: (bytes absorbed at that moment, blocks the counter was set to)
    pub jumps: Vec<(usize, u128)>,
    /// model-side history flags of this instance (for signatures and coverage)
    pub cloned: bool,
    pub reused: bool,
    pub multi_with_fill: bool,
}

pub struct World {
    pub host: u8,
    pub tasks: Vec<Task>,
    pub swarm: J,
    pub log: u64,
    pub steps: u64,
    pub bytes: u64,
    pub tlogs: Vec<u64>,
}

pub struct S4;

pub use crate::kit::sim::hash_bytes;

fn fill_class(t: &Task) -> u64 {
    let b = TYPES[t.ty].block;
    let f = t.msg.len() % b;
    if f == 0 {
        if t.msg.is_empty() {
            0
        } else if TYPES[t.ty].family == Family::Skein {
            4 // a full block is held back (lazy buffering)
        } else {
            1
        }
    } else if f == b - 1 {
        3
    } else {
        2
    }
}

fn piece_class(len: usize, b: usize, f: usize) -> u64 {
    if len == 0 {
        0
    } else if f + len < b {
        1
    } else if f + len == b {
        2
    } else if f + len < 2 * b {
        3
    } else if (f + len) % b == 0 {
        4
    } else {
        5
    }
}

impl Scenario for S4 {
    type World = World;
    fn name(&self) -> &'static str {
        "hash_stream"
    }
    fn gen_setup(&self, mix: &str, st: &mut Streams) -> J {
        let sw = &mut st.swarm;
        let n = sw.range(1, 3);
        let ntypes = if mix == "C03" { 12 } else { TYPES.len() };
        let mut tasks = Vec::new();
        for _ in 0..n {
            let ty = if mix == "C03" {
                // the dispatching hashes: BLAKE x4, JH x4 (Groestl has its own detection, Skein none)
                let i = sw.below(8) as usize;
                if i < 4 {
                    i
                } else {
                    i + 4
                }
            } else {
                sw.below(ntypes as u64) as usize
            };
            tasks.push(J::obj().set("type", J::str(TYPES[ty].name)));
        }
        let swarm = J::obj()
            .set("w_update", J::U(sw.range(3, 8) as u128))
            .set("w_chain", J::U(sw.range(0, 1) as u128))
            .set("w_clone", J::U(if mix == "C18" { sw.range(0, 0) } else { sw.range(0, 2) } as u128))
            .set("w_reset", J::U(sw.range(0, 1) as u128))
            .set("w_finres", J::U(sw.range(0, 2) as u128))
            .set("w_final", J::U(sw.range(1, 2) as u128))
            .set("w_drop", J::U(sw.range(0, 1) as u128))
            .set("w_jump", J::U(if mix == "C03" || !cfg!(cryptocorrosion_verif) { 0 } else { sw.chance(1, 3) as u64 * sw.range(1, 2) } as u128))
            .set("big", J::U(sw.chance(1, 12) as u128))
            .set("nops", J::U(sw.range(3, 30) as u128));
        J::obj().set("host", J::U(hosts::pick_level(sw) as u128)).set("tasks", J::A(tasks)).set("swarm", swarm)
    }
    fn new_world(&self, setup: &J) -> World {
        let host = setup.u_or("host", 0) as u8;
        hosts::set_current(host);
        let mut tasks = Vec::new();
        for t in setup.arr("tasks") {
            let ty = super::hashes::type_index(t.s("type").unwrap_or("Blake256")).unwrap_or(1);
            let real = guarded(|| new_hash(ty)).ok();
            tasks.push(Task { ty, real, msg: vec![], jumps: vec![], cloned: false, reused: false, multi_with_fill: false });
        }
        World { host, tasks, swarm: setup.get("swarm").cloned().unwrap_or(J::obj()), log: 0, steps: 0, bytes: 0, tlogs: vec![] }
    }
    fn gen_op(&self, w: &World, mix: &str, st: &mut Streams) -> Option<Op> {
        let live: Vec<usize> = (0..w.tasks.len()).filter(|i| w.tasks[*i].real.is_some()).collect();
        if live.is_empty() || w.steps >= w.swarm.u_or("nops", 24) as u64 {
            return None;
        }
        let ti = *st.sched.pick(&live);
        let t = &w.tasks[ti];
        let r = &mut st.ops;
        let sw = &w.swarm;
        let last = w.steps + 1 >= sw.u_or("nops", 24) as u64;
        let wts = [
            ("update", sw.u_or("w_update", 4)),
            ("chain", sw.u_or("w_chain", 0)),
            ("clone", if w.tasks.len() < 6 { sw.u_or("w_clone", 1) } else { 0 }),
            ("reset", sw.u_or("w_reset", 0)),
            ("finres", sw.u_or("w_finres", 1)),
            ("final", sw.u_or("w_final", 1) + if last { 50 } else { 0 }),
            ("drop", sw.u_or("w_drop", 0)),
            ("jump", sw.u_or("w_jump", 0)),
            ("clonefrom", if mix == "C18" { 0 } else { sw.u_or("w_clone", 1).min(1) }),
            ("views", 1),
            ("badarg", if mix == "C18" { 0 } else { 1 }),
        ];
        let total: u128 = wts.iter().map(|x| x.1).sum();
        let mut c = r.below(total.max(1) as u64) as u128;
        let mut kind = "update";
        for (k, wt) in wts.iter() {
            if c < *wt {
                kind = k;
                break;
            }
            c -= wt;
        }
        let t32 = ti as u32;
        // a fresh instance mostly absorbs something first (otherwise half of all digests are of the empty message)
        if t.msg.is_empty() && kind != "update" && kind != "chain" && r.chance(5, 6) {
            kind = "update";
        }
        Some(match kind {
            "update" | "chain" => {
                let b = TYPES[t.ty].block as u64;
                let f = (t.msg.len() as u64) % b;
                let room = b - f;
                let budget = (1u64 << 16).saturating_sub(w.bytes);
                let mut len = match r.below(16) {
                    0 => 0,
                    1 => 1,
                    2 => room.saturating_sub(1),
                    3 | 4 => room,
                    5 => room + 1,
                    6 => b,
                    7 => 2 * b - 1,
                    8 => 2 * b,
                    9 => 2 * b + 1,
                    10 => room + b * r.range(1, 7),
                    11 => b * r.range(1, 8) + r.range(0, b - 1),
                    // aim at the padding boundaries of the families (BLAKE footer, Groestl 8 bytes, JH)
                    12 | 13 => (room + b - *r.pick(&[9u64, 8, 17, 16, 1, 7, 10, 18])) % b + b * r.below(2),
                    14 => {
                        if sw.u_or("big", 0) == 1 {
                            r.range(8 * b, 1 << 16)
                        } else {
                            r.range(0, b)
                        }
                    }
                    _ => r.range(0, 2 * b),
                };
                len = len.min(budget);
                Op::new(t32, kind, &[("len", len as u128), ("dseed", st.data.next() as u128), ("align", st.place.below(64) as u128)])
            }
            "finres" => Op::new(t32, "finres", &[("fixed", r.below(4) as u128)]),
            "final" => Op::new(t32, "final", &[("how", r.below(3) as u128)]),
            "jump" => {
                let (k, _) = super::s6_counters::pick_k(r, t.ty);
                Op::new(t32, "jump", &[("blocks", k)])
            }
            "badarg" => Op::new(t32, "badarg", &[]),
            "views" => {
                let b = TYPES[t.ty].block as u64;
                Op::new(t32, "views", &[("len", r.range(0, 3 * b) as u128), ("grow", *r.pick(&[1u64, b - 1, b, b + 1, 2 * b + 3]) as u128), ("dseed", st.data.next() as u128)])
            }
            "clonefrom" => {
                // Clone::clone_from(dst = this task, src = another live task of the same type), if there is one
                let cands: Vec<usize> = live.iter().copied().filter(|j| *j != ti && w.tasks[*j].ty == t.ty).collect();
                if cands.is_empty() {
                    Op::new(t32, "clone", &[])
                } else {
                    Op::new(t32, "clonefrom", &[("src", *r.pick(&cands) as u128)])
                }
            }
            k => Op::new(t32, k, &[]),
        })
    }
    fn step(&self, w: &mut World, op: &Op, stats: &mut Stats) -> Step {
        hosts::set_current(w.host);
        let ti = op.t as usize;
        if ti >= w.tasks.len() || w.tasks[ti].real.is_none() {
            return Step::Skip;
        }
        w.steps += 1;
        let mut rh = 0u64;
        let r = step_inner(w, ti, op, stats, &mut rh);
        if ti >= w.tlogs.len() {
            w.tlogs.resize(ti + 1, 0);
        }
        w.tlogs[ti] = (w.tlogs[ti].rotate_left(7) ^ op.hash_nt()).wrapping_mul(0x9e37_79b9_7f4a_7c15) ^ rh;
        w.log = (w.log.rotate_left(7) ^ op.hash()).wrapping_mul(0x9e37_79b9_7f4a_7c15) ^ rh;
        r
    }
    fn finish(&self, w: &mut World, stats: &mut Stats) -> Step {
        // every instance still alive is finalised and checked (a clone's digest must not depend on what
        // happened to its siblings afterwards)
        hosts::set_current(w.host);
        for ti in 0..w.tasks.len() {
            if w.tasks[ti].real.is_none() {
                continue;
            }
            let mut rh = 0;
            let op = Op::new(ti as u32, "final", &[]);
            if let Step::Fail(v) = step_inner(w, ti, &op, stats, &mut rh) {
                return Step::Fail(v);
            }
            if ti >= w.tlogs.len() {
                w.tlogs.resize(ti + 1, 0);
            }
            w.tlogs[ti] = (w.tlogs[ti].rotate_left(7) ^ 0x51).wrapping_mul(0x9e37_79b9_7f4a_7c15) ^ rh;
            w.log = (w.log.rotate_left(7) ^ 0x51).wrapping_mul(0x9e37_79b9_7f4a_7c15) ^ rh;
        }
        Step::Done
    }
    fn log_digest(&self, w: &World) -> u64 {
        w.log
    }
    fn task_logs(&self, w: &World) -> Vec<u64> {
        w.tlogs.clone()
    }
    fn shrink_setup(&self, setup: &J, ops: &[Op]) -> Vec<(J, Vec<Op>)> {
        let mut out = Vec::new();
        if setup.u_or("host", 0) != 0 {
            out.push((setup.clone().set("host", J::U(0)), ops.to_vec()));
        }
        let tasks = setup.arr("tasks");
        if tasks.len() > 1 && !ops.iter().any(|o| o.name == "clone") {
            for i in 0..tasks.len() {
                if ops.iter().any(|o| o.t as usize == i) {
                    continue;
                }
                let mut nt = tasks.to_vec();
                nt.remove(i);
                let nops = ops
                    .iter()
                    .map(|o| {
                        let mut o = o.clone();
                        if o.t as usize > i {
                            o.t -= 1;
                        }
                        o
                    })
                    .collect();
                out.push((setup.clone().set("tasks", J::A(nt)), nops));
            }
        }
        out
    }
    fn shrink_values(&self, _op: &Op, arg: &str, v: u128) -> Vec<u128> {
        let mut c: Vec<u128> = match arg {
            "dseed" | "align" | "fixed" => vec![0],
            _ => vec![0, 1, 31, 32, 55, 56, 63, 64, 65, 111, 112, 127, 128, 129, v / 2, v.saturating_sub(1), v.saturating_sub(64)],
        };
        c.retain(|x| *x < v);
        c
    }
}

fn flags(t: &Task) -> String {
    format!("cloned={}:reused={}:multi_with_fill={}", t.cloned as u8, t.reused as u8, t.multi_with_fill as u8)
}

fn finalize_probes(t: &Task, stats: &mut Stats) {
    let ht = &TYPES[t.ty];
    let f = t.msg.len() % ht.block;
    match ht.family {
        Family::Blake => {
            let footer = 1 + ht.block / 8;
            if f + footer == ht.block {
                stats.hit("probe.blake_exact_fit_finalisation");
            } else if f + footer > ht.block {
                stats.hit("probe.blake_extra_block_finalisation");
            }
            if f == 0 {
                stats.hit("probe.blake_padding_only_block");
            }
        }
        Family::Groestl => {
            if ht.block - f <= 8 {
                stats.hit("probe.groestl_le8_bytes_left_padding_block");
            }
        }
        Family::Jh => {
            if f == 0 {
                stats.hit("probe.jh_aligned_finalisation");
            } else {
                stats.hit("probe.jh_unaligned_finalisation");
            }
        }
        Family::Skein => {
            if f == 0 && !t.msg.is_empty() {
                stats.hit("probe.skein_pending_full_block_at_finalise");
            }
        }
    }
    if t.msg.is_empty() {
        stats.hit("probe.empty_message_finalised");
    }
}

/// An incremental call panicked. C08 is violated only if the same bytes hash fine in one call
/// (the panic depends on the history); if the one-shot call panics too, that is a conformance /
/// backend matter (C03, C04-C07), noted but not decided here. The instance is retired either way.
fn panic_verdict(t: &mut Task, extra: &[u8], what: &str, m: String, stats: &mut Stats) -> Step {
    let mut all = t.msg.clone();
    all.extend_from_slice(extra);
    let ty = t.ty;
    t.real = None;
    match guarded(|| oneshot(ty, &all)) {
        Ok(_) => Step::Fail(Violation::new(
            &["C08"],
            "H0",
            format!("{} panics although the one-shot digest of the same bytes works:{}", what, TYPES[ty].name),
            format!("{} {} after {} bytes: {}", TYPES[ty].name, what, all.len(), m),
        )),
        Err(_) => {
            stats.note("incremental and one-shot calls both panic (C03/C04-C07 territory, not decided here)");
            Step::Done
        }
    }
}

/// the same bytes in as few calls as possible, with the same counter jumps at the same byte positions
fn oneshot_with_jumps(t: &Task) -> Vec<u8> {
    if t.jumps.is_empty() {
        return oneshot(t.ty, &t.msg);
    }
    let mut h = new_hash(t.ty);
    let mut pos = 0;
    for (at, k) in &t.jumps {
        h.update(&t.msg[pos..*at]);
        pos = *at;
        let (_, buffered) = super::s6_counters::absorb(t.ty, 0, *at);
        h.set_counter(super::s6_counters::expected_counter(t.ty, *k, buffered));
    }
    h.update(&t.msg[pos..]);
    h.finalize_box()
}

fn check_digest(t: &Task, got: &[u8], how: &str, stats: &mut Stats) -> Option<Violation> {
    let want = match guarded(|| oneshot_with_jumps(t)) {
        Ok(w) => w,
        Err(m) => {
            stats.note("one-shot digest panics (C03/C04-C07 territory, not decided here)");
            let _ = m;
            return None;
        }
    };
    if want != got {
        return Some(Violation::new(
            &["C08"],
            "H1",
            format!("digest depends on history:{}:{}:{}{}", TYPES[t.ty].name, how, flags(t), if t.jumps.is_empty() { "" } else { ":near a counter boundary" }),
            format!("{} of {} bytes via {}: incremental {} != one-shot {}", TYPES[t.ty].name, t.msg.len(), how, crate::kit::json::hex(got), crate::kit::json::hex(&want)),
        ));
    }
    None
}

fn step_inner(w: &mut World, ti: usize, op: &Op, stats: &mut Stats, rh: &mut u64) -> Step {
    let name = op.name.as_str();
    let tyname = TYPES[w.tasks[ti].ty].name;
    match name {
        "update" | "chain" => {
            let len = op.get("len");
            if len > (1 << 17) {
                return Step::Skip;
            }
            let len = len as usize;
            let t = &mut w.tasks[ti];
            let b = TYPES[t.ty].block;
            let f = t.msg.len() % b;
            let data = pattern(op.get("dseed") as u64, len);
            // place the piece at a chosen alignment
            let align = (op.get("align") % 64) as usize;
            let mut store = vec![0u8; len + 128];
            let off = (64 - (store.as_ptr() as usize % 64)) % 64 + align;
            store[off..off + len].copy_from_slice(&data);
            stats.hit(if name == "chain" { "op.chain" } else { "op.update" });
            let pc = piece_class(len, b, f);
            let fc = fill_class(t);
            let res = if name == "chain" {
                let real = t.real.take().unwrap();
                match guarded(|| real.chain_box(&store[off..off + len])) {
                    Ok(r) => {
                        t.real = Some(r);
                        Ok(())
                    }
                    Err(m) => Err(m),
                }
            } else {
                let real = t.real.as_mut().unwrap();
                guarded(|| real.update(&store[off..off + len]))
            };
            if let Err(m) = res {
                return panic_verdict(t, &data, "update", m, stats);
            }
            if f != 0 && f + len >= 2 * b {
                t.multi_with_fill = true;
                stats.hit("probe.multi_block_piece_with_nonempty_buffer");
            }
            if f + len == b && len > 0 {
                stats.hit("probe.piece_fills_buffer_exactly");
            }
            t.msg.extend_from_slice(&data);
            w.bytes += len as u64;
            *rh = len as u64;
            stats.state(&[7, t.ty as u64, fc, pc, (name == "chain") as u64]);
            Step::Done
        }
        "clone" => {
            if w.tasks.len() >= 8 {
                return Step::Skip;
            }
            stats.hit("op.clone");
            let t = &mut w.tasks[ti];
            let fc = fill_class(t);
            let c = match guarded(|| t.real.as_ref().unwrap().clone_box()) {
                Ok(c) => c,
                Err(m) => return Step::Fail(Violation::new(&["C08"], "H0", format!("clone panics:{}", tyname), m)),
            };
            t.cloned = true;
            let nt = Task { ty: t.ty, real: Some(c), msg: t.msg.clone(), jumps: t.jumps.clone(), cloned: true, reused: t.reused, multi_with_fill: t.multi_with_fill };
            stats.state(&[8, t.ty as u64, fc]);
            w.tasks.push(nt);
            Step::Done
        }
        "reset" => {
            stats.hit("op.reset");
            let t = &mut w.tasks[ti];
            let fc = fill_class(t);
            if let Err(m) = guarded(|| t.real.as_mut().unwrap().reset()) {
                return Step::Fail(Violation::new(&["C08"], "H0", format!("reset panics:{}", tyname), m));
            }
            t.msg.clear();
            t.jumps.clear();
            t.reused = true;
            t.multi_with_fill = false;
            stats.state(&[9, t.ty as u64, fc]);
            Step::Done
        }
        "finres" => {
            let fixed = op.get("fixed") % 4;
            const FR: [&str; 4] = ["finalize_reset", "finalize_fixed_reset", "finalize_into_reset", "finalize_into_dirty+reset"];
            stats.hit(&format!("op.{}", FR[fixed as usize]));
            let t = &mut w.tasks[ti];
            let fc = fill_class(t);
            finalize_probes(t, stats);
            let outlen = TYPES[t.ty].out;
            let got = match guarded(|| {
                let h = t.real.as_mut().unwrap();
                match fixed {
                    0 => h.finalize_reset(),
                    1 => h.finalize_fixed_reset(),
                    2 => {
                        let mut o = vec![0u8; outlen];
                        h.finalize_into_reset_at(&mut o);
                        o
                    }
                    _ => h.finalize_dirty_then_reset(),
                }
            }) {
                Ok(g) => g,
                Err(m) => return panic_verdict(t, &[], "finalize_reset", m, stats),
            };
            *rh = hash_bytes(&got);
            if let Some(v) = check_digest(t, &got, FR[fixed as usize], stats) {
                return Step::Fail(v);
            }
            if t.reused {
                stats.hit("probe.digest_checked_on_reused_instance");
            }
            if t.cloned {
                stats.hit("probe.digest_checked_on_clone_or_cloned_original");
            }
            t.msg.clear();
            t.jumps.clear();
            t.reused = true;
            t.multi_with_fill = false;
            stats.state(&[10, t.ty as u64, fc, fixed as u64]);
            Step::Done
        }
        "final" => {
            let how = op.get("how") % 3;
            stats.hit(["op.finalize", "op.finalize_fixed", "op.finalize_into"][how as usize]);
            let t = &mut w.tasks[ti];
            let fc = fill_class(t);
            finalize_probes(t, stats);
            let real = t.real.take().unwrap();
            let outlen = TYPES[t.ty].out;
            let got = match guarded(|| match how {
                0 => real.finalize_box(),
                1 => real.finalize_fixed_box(),
                _ => {
                    let mut o = vec![0u8; outlen];
                    real.finalize_into_at(&mut o);
                    o
                }
            }) {
                Ok(g) => g,
                Err(m) => return panic_verdict(t, &[], "finalize", m, stats),
            };
            *rh = hash_bytes(&got);
            if let Some(v) = check_digest(t, &got, "finalize", stats) {
                return Step::Fail(v);
            }
            if t.reused {
                stats.hit("probe.digest_checked_on_reused_instance");
            }
            if t.cloned {
                stats.hit("probe.digest_checked_on_clone_or_cloned_original");
            }
            stats.state(&[11, t.ty as u64, fc, t.cloned as u64, t.reused as u64, t.multi_with_fill as u64]);
            // the task continues with a brand-new instance
            t.real = guarded(|| new_hash(t.ty)).ok();
            t.msg.clear();
            t.jumps.clear();
            t.cloned = false;
            t.reused = false;
            t.multi_with_fill = false;
            Step::Done
        }
        "badarg" => {
            // update() with an argument whose as_ref() panics (no bytes were supplied); the caller recovers and keeps
            // using the instance: it must behave as if the call had not happened
            let t = &mut w.tasks[ti];
            stats.hit("op.update_with_panicking_as_ref_then_continue");
            let real = t.real.as_mut().unwrap();
            let r = guarded(|| real.update_views(&[]));
            if r.is_ok() {
                stats.hit("probe.update_did_not_call_as_ref");
            }
            if fill_class(t) >= 2 {
                stats.hit("probe.failed_update_on_partly_filled_buffer");
            }
            Step::Done
        }
        "views" => {
            // update() with an argument whose as_ref() is not idempotent (a view of a growing buffer): on a CLONE of the
            // instance; the digest must be that of the bytes absorbed so far followed by ONE of the views handed out
            let len = (op.get("len") as usize).min(1 << 12);
            let grow = (op.get("grow") as usize).min(1 << 10).max(1);
            let t = &w.tasks[ti];
            stats.hit("op.update_with_non_idempotent_as_ref");
            let all = pattern(op.get("dseed") as u64 | 2, len + 2 * grow);
            let views: [&[u8]; 3] = [&all[..len], &all[..len + grow], &all[..len + 2 * grow]];
            let mut c = match guarded(|| t.real.as_ref().unwrap().clone_box()) {
                Ok(c) => c,
                Err(_) => return Step::Skip,
            };
            let res = guarded(|| {
                let calls = c.update_views(&views);
                (calls, c.finalize_box())
            });
            let (calls, got) = match res {
                Ok(r) => r,
                Err(m) => return Step::Fail(Violation::new(&["C08", "C17"], "H0", format!("update with a growing view panics:{}", tyname), m)),
            };
            *rh = hash_bytes(&got);
            let mut matches = false;
            for v in views.iter() {
                let mut probe = Task { ty: t.ty, real: None, msg: t.msg.clone(), jumps: t.jumps.clone(), cloned: false, reused: false, multi_with_fill: false };
                probe.msg.extend_from_slice(v);
                if guarded(|| oneshot_with_jumps(&probe)).map(|d| d == got).unwrap_or(false) {
                    matches = true;
                    break;
                }
            }
            if !matches {
                return Step::Fail(Violation::new(
                    &["C08", "C17"],
                    "H2",
                    format!("digest matches none of the views handed out by as_ref():{}:calls={}", tyname, calls),
                    format!("{}: {} bytes absorbed, then update(view) where as_ref() returns {} / {} / {} bytes on successive calls ({} calls were made): the digest is not that of any of them", tyname, t.msg.len(), len, len + grow, len + 2 * grow, calls),
                ));
            }
            if calls > 1 {
                stats.hit("probe.as_ref_called_more_than_once");
            }
            Step::Done
        }
        "clonefrom" => {
            let src = op.get("src") as usize;
            if src >= w.tasks.len() || src == ti || w.tasks[src].real.is_none() || w.tasks[src].ty != w.tasks[ti].ty {
                return Step::Skip;
            }
            stats.hit("op.clone_from");
            let fc_dst = fill_class(&w.tasks[ti]);
            let fc_src = fill_class(&w.tasks[src]);
            let (a, b) = if ti < src {
                let (l, r) = w.tasks.split_at_mut(src);
                (&mut l[ti], &r[0])
            } else {
                let (l, r) = w.tasks.split_at_mut(ti);
                (&mut r[0], &l[src])
            };
            let sreal = b.real.as_ref().unwrap();
            match guarded(|| a.real.as_mut().unwrap().clone_from_obj(sreal.as_ref())) {
                Ok(true) => {}
                Ok(false) => return Step::Skip,
                Err(m) => return Step::Fail(Violation::new(&["C08"], "H0", format!("clone_from panics:{}", tyname), m)),
            }
            if fc_dst >= 2 && fc_src <= 1 {
                stats.hit("probe.clone_from_into_partly_filled_from_empty_buffer");
            }
            a.msg = b.msg.clone();
            a.jumps = b.jumps.clone();
            a.cloned = true;
            a.reused = b.reused;
            a.multi_with_fill = b.multi_with_fill;
            stats.state(&[16, a.ty as u64, fc_dst, fc_src]);
            Step::Done
        }
        "jump" => {
            // hook H2: fast-forward the length counter (the hash's clock) so that chunking/clone/reset invariance
            // is also exercised next to counter word boundaries; the one-shot oracle makes the same jump
            let t = &mut w.tasks[ti];
            let b = TYPES[t.ty].block as u128;
            let lim = super::s6_counters::max_total_bytes(t.ty) / b;
            let k = op.get("blocks").min(lim.saturating_sub(8192));
            stats.hit("op.counter_jump");
            let (_, buffered) = super::s6_counters::absorb(t.ty, 0, t.msg.len());
            t.real.as_mut().unwrap().set_counter(super::s6_counters::expected_counter(t.ty, k, buffered));
            t.jumps.push((t.msg.len(), k));
            *rh = k as u64;
            Step::Done
        }
        "drop" => {
            stats.hit("op.drop_unfinalised");
            let t = &mut w.tasks[ti];
            t.real = guarded(|| new_hash(t.ty)).ok();
            t.msg.clear();
            t.jumps.clear();
            t.cloned = false;
            t.reused = false;
            t.multi_with_fill = false;
            Step::Done
        }
        _ => Step::Skip,
    }
}
