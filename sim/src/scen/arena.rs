//! Guard-page arena: the caller's allocator is the environment, and the simulator owns it.
//! Every slot is `PROT_NONE | data pages | PROT_NONE`; a slice can be placed so that it ends on the last
//! byte before a guard page, starts on the first byte after one, or lies in the middle between canaries.
//! Placement is expressed in offsets inside a slot only, so it replays under ASLR.
pub use crate::kit::sim::{CUR_OP, CUR_RUN};
use std::sync::atomic::Ordering;

extern "C" {
    fn mmap(addr: *mut u8, len: usize, prot: i32, flags: i32, fd: i32, off: i64) -> *mut u8;
    fn mprotect(addr: *mut u8, len: usize, prot: i32) -> i32;
    fn munmap(addr: *mut u8, len: usize) -> i32;
    fn signal(signum: i32, handler: usize) -> usize;
    fn write(fd: i32, buf: *const u8, n: usize) -> isize;
    fn _exit(code: i32) -> !;
}

const PROT_NONE: i32 = 0;
const PROT_READ: i32 = 1;
const PROT_WRITE: i32 = 2;
const MAP_PRIVATE: i32 = 2;
const MAP_ANONYMOUS: i32 = 0x20;
pub const PAGE: usize = 4096;
pub const DATA_PAGES: usize = 3;
pub const DATA: usize = PAGE * DATA_PAGES;
pub const CANARY: u8 = 0xC7;


extern "C" fn on_fault(sig: i32) {
    // async-signal-safe: format into a stack buffer, write(2), _exit
    let mut buf = [0u8; 96];
    let mut n = 0;
    let mut put = |s: &[u8], n: &mut usize| {
        for b in s {
            if *n < 96 {
                buf[*n] = *b;
                *n += 1;
            }
        }
    };
    let num = |mut v: u64, out: &mut [u8; 20]| -> usize {
        let mut i = 20;
        if v == 0 {
            i -= 1;
            out[i] = b'0';
        }
        while v > 0 {
            i -= 1;
            out[i] = b'0' + (v % 10) as u8;
            v /= 10;
        }
        i
    };
    put(b"FAULT sig=", &mut n);
    let mut t = [0u8; 20];
    let i = num(sig as u64, &mut t);
    put(&t[i..], &mut n);
    put(b" run=", &mut n);
    let i = num(CUR_RUN.load(Ordering::Relaxed), &mut t);
    put(&t[i..], &mut n);
    put(b" op=", &mut n);
    let i = num(CUR_OP.load(Ordering::Relaxed), &mut t);
    put(&t[i..], &mut n);
    put(b"\n", &mut n);
    unsafe {
        write(1, buf.as_ptr(), n);
        _exit(99);
    }
}

pub fn install_fault_handler() {
    unsafe {
        signal(11, on_fault as usize); // SIGSEGV
        signal(7, on_fault as usize); // SIGBUS
        signal(4, on_fault as usize); // SIGILL
    }
}

#[derive(Clone, Copy, Debug, PartialEq, Eq)]
pub enum Mode {
    /// slice ends on the last byte before the guard page
    End,
    /// slice starts on the first byte after the guard page
    Start,
    /// slice in the middle of the data pages at a chosen offset, canaries around it
    Mid,
}

impl Mode {
    pub fn from(v: u128) -> Mode {
        match v % 3 {
            0 => Mode::End,
            1 => Mode::Start,
            _ => Mode::Mid,
        }
    }
}

pub struct Slot {
    base: *mut u8, // start of the leading guard page
}

pub struct Arena {
    slots: Vec<Slot>,
    /// heap mode (for the memcheck pass): every slice is (the head or the tail of) a heap block of its own
    heap: Vec<Option<Box<[u8]>>>,
    pub heap_mode: bool,
}

unsafe impl Send for Arena {}

pub struct Placed {
    pub ptr: *mut u8,
    pub len: usize,
    slot: usize,
    start: usize,
}

impl Arena {
    pub fn new(nslots: usize) -> Arena {
        let mut slots = Vec::new();
        for _ in 0..nslots {
            let total = DATA + 2 * PAGE;
            let base = unsafe { mmap(std::ptr::null_mut(), total, PROT_NONE, MAP_PRIVATE | MAP_ANONYMOUS, -1, 0) };
            assert!(!base.is_null() && base as isize != -1, "mmap failed");
            let rc = unsafe { mprotect(base.add(PAGE), DATA, PROT_READ | PROT_WRITE) };
            assert_eq!(rc, 0);
            slots.push(Slot { base });
        }
        Arena { slots, heap: (0..nslots).map(|_| None).collect(), heap_mode: false }
    }
    fn data(&self, slot: usize) -> *mut u8 {
        unsafe { self.slots[slot].base.add(PAGE) }
    }
    /// Place `content` in `slot`; the rest of the data pages is filled with canaries.
    pub fn place(&mut self, slot: usize, content: &[u8], mode: Mode, off: usize) -> Placed {
        if self.heap_mode {
            // End: the slice is the tail of an exact-size heap block (`off` bytes of padding in front decide its alignment),
            // so one byte past the slice is one byte past the allocation. Start (and Mid): the slice is the head of the block.
            let pad = off % 64;
            let len = content.len();
            let mut v: Vec<u8> = Vec::with_capacity(len + pad);
            let start = if mode == Mode::End { pad } else { 0 };
            v.resize(len + pad, CANARY);
            v[start..start + len].copy_from_slice(content);
            let mut b = v.into_boxed_slice();
            let ptr = unsafe { b.as_mut_ptr().add(start) };
            self.heap[slot] = Some(b);
            return Placed { ptr, len, slot, start };
        }
        let len = content.len();
        assert!(len + 64 <= DATA);
        let start = match mode {
            Mode::End => DATA - len,
            Mode::Start => 0,
            Mode::Mid => PAGE + 64 + (off % 64),
        };
        let d = self.data(slot);
        unsafe {
            self.writable(slot);
            std::ptr::write_bytes(d, CANARY, DATA);
            std::ptr::copy_nonoverlapping(content.as_ptr(), d.add(start), len);
            Placed { ptr: d.add(start), len, slot, start }
        }
    }
    pub fn readonly(&mut self, slot: usize) {
        if self.heap_mode {
            return;
        }
        let rc = unsafe { mprotect(self.data(slot), DATA, PROT_READ) };
        assert_eq!(rc, 0);
    }
    pub fn writable(&mut self, slot: usize) {
        if self.heap_mode {
            return;
        }
        let rc = unsafe { mprotect(self.data(slot), DATA, PROT_READ | PROT_WRITE) };
        assert_eq!(rc, 0);
    }
    /// canaries around the placed slice intact?
    pub fn canaries_ok(&self, p: &Placed) -> bool {
        if self.heap_mode {
            let b = self.heap[p.slot].as_ref().unwrap();
            return b[..p.start].iter().all(|x| *x == CANARY) && b[p.start + p.len..].iter().all(|x| *x == CANARY);
        }
        let d = self.data(p.slot);
        unsafe {
            let all = std::slice::from_raw_parts(d, DATA);
            all[..p.start].iter().all(|b| *b == CANARY) && all[p.start + p.len..].iter().all(|b| *b == CANARY)
        }
    }
}

impl Placed {
    pub fn slice(&self) -> &[u8] {
        unsafe { std::slice::from_raw_parts(self.ptr, self.len) }
    }
    pub fn slice_mut(&mut self) -> &mut [u8] {
        unsafe { std::slice::from_raw_parts_mut(self.ptr, self.len) }
    }
}

impl Drop for Arena {
    fn drop(&mut self) {
        for s in &self.slots {
            unsafe {
                munmap(s.base, DATA + 2 * PAGE);
            }
        }
    }
}
