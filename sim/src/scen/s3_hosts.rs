//! S3 `hosts`: the same world and the same operation list on every simulated host (capability level
//! reported by hook H1), interleaved host by host, transcripts compared after every step (C03).
use crate::hosts;
use crate::kit::json::J;
use crate::kit::rng::Streams;
use crate::kit::sim::{Op, Scenario, Stats, Step, Violation};

pub struct Hosts<S: Scenario> {
    pub inner: S,
    pub name: &'static str,
}

pub struct HWorld<W> {
    pub worlds: Vec<(u8, W)>,
}

impl<S: Scenario> Scenario for Hosts<S> {
    type World = HWorld<S::World>;
    fn name(&self) -> &'static str {
        self.name
    }
    fn gen_setup(&self, mix: &str, st: &mut Streams) -> J {
        let setup = self.inner.gen_setup(mix, st);
        // all levels the real CPU can execute, in an order chosen by the scheduler stream
        let max = hosts::max_level().max(1);
        let mut levels: Vec<u8> = (1..=max).collect();
        let mut r = st.sched.fork("host-order");
        for i in (1..levels.len()).rev() {
            let j = r.below(i as u64 + 1) as usize;
            levels.swap(i, j);
        }
        setup.set("hosts", J::A(levels.iter().map(|l| J::U(*l as u128)).collect()))
    }
    fn new_world(&self, setup: &J) -> Self::World {
        let mut worlds = Vec::new();
        let mut levels: Vec<u8> = setup.arr("hosts").iter().filter_map(|j| j.as_u128()).map(|l| l as u8).collect();
        if levels.is_empty() {
            levels = (1..=hosts::max_level().max(1)).collect();
        }
        for l in levels {
            let s = setup.clone().set("host", J::U(l as u128));
            worlds.push((l, self.inner.new_world(&s)));
        }
        HWorld { worlds }
    }
    fn gen_op(&self, w: &Self::World, mix: &str, st: &mut Streams) -> Option<Op> {
        self.inner.gen_op(&w.worlds[0].1, mix, st)
    }
    fn step(&self, w: &mut Self::World, op: &Op, stats: &mut Stats) -> Step {
        let mut results: Vec<(u8, u64, Option<Violation>, bool)> = Vec::new();
        let mut scratch = Stats::default();
        for (i, (level, world)) in w.worlds.iter_mut().enumerate() {
            let st = if i == 0 { &mut *stats } else { &mut scratch };
            let r = self.inner.step(world, op, st);
            let d = self.inner.log_digest(world);
            match r {
                Step::Done => results.push((*level, d, None, false)),
                Step::Skip => results.push((*level, d, None, true)),
                Step::Fail(v) => results.push((*level, d, Some(v), false)),
            }
            stats.hit(&format!("host.{}.steps", hosts::LEVEL_NAMES[(*level).min(5) as usize]));
        }
        compare(self.inner.name(), op, results)
    }
    fn finish(&self, w: &mut Self::World, stats: &mut Stats) -> Step {
        let mut results = Vec::new();
        let mut scratch = Stats::default();
        for (i, (level, world)) in w.worlds.iter_mut().enumerate() {
            let st = if i == 0 { &mut *stats } else { &mut scratch };
            let r = self.inner.finish(world, st);
            let d = self.inner.log_digest(world);
            match r {
                Step::Fail(v) => results.push((*level, d, Some(v), false)),
                _ => results.push((*level, d, None, false)),
            }
        }
        compare(self.inner.name(), &Op::new(0, "finish", &[]), results)
    }
    fn log_digest(&self, w: &Self::World) -> u64 {
        self.inner.log_digest(&w.worlds[0].1)
    }
    fn shrink_setup(&self, setup: &J, ops: &[Op]) -> Vec<(J, Vec<Op>)> {
        // fewer hosts: every pair
        let levels: Vec<u128> = setup.arr("hosts").iter().filter_map(|j| j.as_u128()).collect();
        let mut out = Vec::new();
        if levels.len() > 2 {
            for i in 0..levels.len() {
                for j in i + 1..levels.len() {
                    out.push((setup.clone().set("hosts", J::A(vec![J::U(levels[i]), J::U(levels[j])])), ops.to_vec()));
                }
            }
        }
        for (s, o) in self.inner.shrink_setup(setup, ops) {
            if s.u_or("host", 0) == setup.u_or("host", 0) {
                out.push((s, o));
            }
        }
        out
    }
    fn shrink_values(&self, op: &Op, arg: &str, v: u128) -> Vec<u128> {
        self.inner.shrink_values(op, arg, v)
    }
}

fn compare(inner: &str, op: &Op, results: Vec<(u8, u64, Option<Violation>, bool)>) -> Step {
    let failing: Vec<&(u8, u64, Option<Violation>, bool)> = results.iter().filter(|r| r.2.is_some()).collect();
    let lname = |l: u8| hosts::LEVEL_NAMES[l.min(5) as usize];
    if !failing.is_empty() && failing.len() < results.len() {
        // one host fails (wrong bytes, panic) where another returns
        let v = failing[0].2.as_ref().unwrap();
        let bad: Vec<&str> = failing.iter().map(|r| lname(r.0)).collect();
        return Step::Fail(Violation::new(
            &["C03"],
            "X2",
            format!("host fails where others succeed:{}:{}:{}", inner, op.name, bad.join("+")),
            format!("on host(s) {} the step '{}' failed ({}: {}) while it passed on the other hosts", bad.join(","), op.name, v.invariant, v.detail),
        ));
    }
    if failing.len() == results.len() && !results.is_empty() {
        // every host fails the same way: that is the inner property's violation, not a host difference
        return Step::Fail(failing[0].2.clone().unwrap());
    }
    let d0 = results[0].1;
    if results.iter().any(|r| r.1 != d0) {
        // majority digest = reference
        let mut counts: Vec<(u64, usize)> = Vec::new();
        for r in &results {
            if let Some(c) = counts.iter_mut().find(|c| c.0 == r.1) {
                c.1 += 1;
            } else {
                counts.push((r.1, 1));
            }
        }
        counts.sort_by(|a, b| b.1.cmp(&a.1));
        let odd: Vec<&str> = results.iter().filter(|r| r.1 != counts[0].0).map(|r| lname(r.0)).collect();
        return Step::Fail(Violation::new(
            &["C03"],
            "X1",
            format!("hosts disagree:{}:{}:{}", inner, op.name, odd.join("+")),
            format!("after step '{}' the transcript of host(s) {} differs from the other hosts", op.name, odd.join(",")),
        ));
    }
    if results.iter().all(|r| r.3) {
        return Step::Skip;
    }
    Step::Done
}
