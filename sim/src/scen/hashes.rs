//! Object-safe access to the 15 hash types (plus 18 more Skein output sizes) through their public `digest` API.
use digest::generic_array::typenum::{U1, U128, U129, U16, U20, U200, U28, U32, U33, U48, U64, U65, U8};
use digest::generic_array::GenericArray;
use digest::{BlockInput, Digest, FixedOutput, FixedOutputDirty, Reset, Update};

/// An argument for `update(impl AsRef<[u8]>)` whose `as_ref()` is not idempotent: every call hands out the next of
/// several views of a growing buffer (the last one again after that). A hasher may absorb any ONE of the views it
/// was handed - but all of it, and count exactly that.
pub struct Views<'a> {
    pub views: &'a [&'a [u8]],
    pub calls: std::cell::Cell<usize>,
}
impl<'a> AsRef<[u8]> for Views<'a> {
    fn as_ref(&self) -> &[u8] {
        let i = self.calls.get();
        self.calls.set(i + 1);
        if self.views.is_empty() {
            // an argument that cannot produce its bytes: the call must leave the hasher as it was
            panic!("as_ref() of the update argument panics");
        }
        self.views[i.min(self.views.len() - 1)]
    }
}

pub trait HashObj: Send {
    fn update(&mut self, data: &[u8]);
    /// update / chain with a `Views` argument; returns how many times as_ref() was called
    fn update_views(&mut self, views: &[&[u8]]) -> usize;
    fn chain_box(self: Box<Self>, data: &[u8]) -> Box<dyn HashObj>;
    fn finalize_box(self: Box<Self>) -> Vec<u8>;
    /// Digest::finalize_reset (clone + finalize + reset)
    fn finalize_reset(&mut self) -> Vec<u8>;
    /// FixedOutput::finalize_fixed_reset (finalize in place + reset)
    fn finalize_fixed_reset(&mut self) -> Vec<u8>;
    /// FixedOutput::finalize_into_reset into a caller-provided slice (exactly the output size)
    fn finalize_into_reset_at(&mut self, out: &mut [u8]);
    /// FixedOutputDirty::finalize_into_dirty followed by an explicit Reset::reset
    fn finalize_dirty_then_reset(&mut self) -> Vec<u8>;
    /// FixedOutput::finalize_into (consuming) into a caller-provided slice
    fn finalize_into_at(self: Box<Self>, out: &mut [u8]);
    /// FixedOutput::finalize_fixed (consuming)
    fn finalize_fixed_box(self: Box<Self>) -> Vec<u8>;
    fn reset(&mut self);
    fn clone_box(&self) -> Box<dyn HashObj>;
    /// Clone::clone_from(self, src) - src must be the same concrete type (returns false otherwise)
    fn clone_from_obj(&mut self, src: &dyn HashObj) -> bool;
    fn as_any(&self) -> &dyn std::any::Any;
    /// hook H2 (only with the verification cfg): the length counter, the hash's "clock"
    fn counter(&self) -> u128;
    fn set_counter(&mut self, v: u128);
}

pub trait Counter {
    fn verif_get(&self) -> u128;
    fn verif_set(&mut self, v: u128);
}

impl<D> HashObj for D
where
    D: Digest + Update + FixedOutput + FixedOutputDirty<OutputSize = <D as FixedOutput>::OutputSize> + Reset + BlockInput + Clone + Default + Counter + Send + 'static,
{
    fn update_views(&mut self, views: &[&[u8]]) -> usize {
        let v = Views { views, calls: std::cell::Cell::new(0) };
        Digest::update(self, &v);
        v.calls.get()
    }
    fn finalize_into_reset_at(&mut self, out: &mut [u8]) {
        FixedOutput::finalize_into_reset(self, GenericArray::from_mut_slice(out))
    }
    fn finalize_dirty_then_reset(&mut self) -> Vec<u8> {
        let mut out = GenericArray::<u8, <D as FixedOutput>::OutputSize>::default();
        FixedOutputDirty::finalize_into_dirty(self, &mut out);
        Reset::reset(self);
        out.to_vec()
    }
    fn finalize_into_at(self: Box<Self>, out: &mut [u8]) {
        FixedOutput::finalize_into(*self, GenericArray::from_mut_slice(out))
    }
    fn finalize_fixed_box(self: Box<Self>) -> Vec<u8> {
        FixedOutput::finalize_fixed(*self).to_vec()
    }
    fn update(&mut self, data: &[u8]) {
        Digest::update(self, data)
    }
    fn chain_box(self: Box<Self>, data: &[u8]) -> Box<dyn HashObj> {
        Box::new(Digest::chain(*self, data))
    }
    fn finalize_box(self: Box<Self>) -> Vec<u8> {
        Digest::finalize(*self).to_vec()
    }
    fn finalize_reset(&mut self) -> Vec<u8> {
        Digest::finalize_reset(self).to_vec()
    }
    fn finalize_fixed_reset(&mut self) -> Vec<u8> {
        FixedOutput::finalize_fixed_reset(self).to_vec()
    }
    fn reset(&mut self) {
        Digest::reset(self)
    }
    fn clone_box(&self) -> Box<dyn HashObj> {
        Box::new(self.clone())
    }
    fn clone_from_obj(&mut self, src: &dyn HashObj) -> bool {
        match src.as_any().downcast_ref::<D>() {
            Some(s) => {
                Clone::clone_from(self, s);
                true
            }
            None => false,
        }
    }
    fn as_any(&self) -> &dyn std::any::Any {
        self
    }
    fn counter(&self) -> u128 {
        self.verif_get()
    }
    fn set_counter(&mut self, v: u128) {
        self.verif_set(v)
    }
}

macro_rules! counter_impl {
    ($($t:ty),*) => {
        $(impl Counter for $t {
            #[cfg(cryptocorrosion_verif)]
            fn verif_get(&self) -> u128 { self.verif_counter() }
            #[cfg(cryptocorrosion_verif)]
            fn verif_set(&mut self, v: u128) { self.verif_set_counter(v) }
            #[cfg(not(cryptocorrosion_verif))]
            fn verif_get(&self) -> u128 { 0 }
            #[cfg(not(cryptocorrosion_verif))]
            fn verif_set(&mut self, _v: u128) {}
        })*
    };
}

use blake_hash::{Blake224, Blake256, Blake384, Blake512};
use groestl_aesni::{Groestl224, Groestl256, Groestl384, Groestl512};
use jh_x86_64::{Jh224, Jh256, Jh384, Jh512};
use skein_hash::{Skein1024, Skein256, Skein512};

counter_impl!(
    Blake224, Blake256, Blake384, Blake512, Groestl224, Groestl256, Groestl384, Groestl512, Jh224, Jh256, Jh384, Jh512,
    Skein256<U32>, Skein512<U64>, Skein1024<U128>, Skein256<U64>, Skein512<U20>, Skein1024<U8>, Skein256<U128>,
    Skein256<U1>, Skein256<U33>, Skein512<U65>, Skein1024<U129>, Skein512<U200>,
    Skein256<U16>, Skein256<U20>, Skein256<U28>, Skein512<U16>, Skein512<U28>, Skein512<U32>, Skein512<U48>, Skein1024<U48>, Skein1024<U64>
);

#[derive(Clone, Copy, Debug, PartialEq, Eq)]
pub enum Family {
    Blake,
    Groestl,
    Jh,
    Skein,
}

#[derive(Clone, Copy, Debug)]
pub struct HashType {
    pub name: &'static str,
    pub family: Family,
    pub block: usize,
    pub out: usize,
    /// does this type pass through the ppv-lite86 dispatch macros (BLAKE, JH)?
    pub dispatching: bool,
}

pub const TYPES: [HashType; 33] = [
    HashType { name: "Blake224", family: Family::Blake, block: 64, out: 28, dispatching: true },
    HashType { name: "Blake256", family: Family::Blake, block: 64, out: 32, dispatching: true },
    HashType { name: "Blake384", family: Family::Blake, block: 128, out: 48, dispatching: true },
    HashType { name: "Blake512", family: Family::Blake, block: 128, out: 64, dispatching: true },
    HashType { name: "Groestl224", family: Family::Groestl, block: 64, out: 28, dispatching: false },
    HashType { name: "Groestl256", family: Family::Groestl, block: 64, out: 32, dispatching: false },
    HashType { name: "Groestl384", family: Family::Groestl, block: 128, out: 48, dispatching: false },
    HashType { name: "Groestl512", family: Family::Groestl, block: 128, out: 64, dispatching: false },
    HashType { name: "Jh224", family: Family::Jh, block: 64, out: 28, dispatching: true },
    HashType { name: "Jh256", family: Family::Jh, block: 64, out: 32, dispatching: true },
    HashType { name: "Jh384", family: Family::Jh, block: 64, out: 48, dispatching: true },
    HashType { name: "Jh512", family: Family::Jh, block: 64, out: 64, dispatching: true },
    HashType { name: "Skein256_32", family: Family::Skein, block: 32, out: 32, dispatching: false },
    HashType { name: "Skein512_64", family: Family::Skein, block: 64, out: 64, dispatching: false },
    HashType { name: "Skein1024_128", family: Family::Skein, block: 128, out: 128, dispatching: false },
    // further output sizes of the same three types: two output blocks, an odd size, a tiny one, four output blocks
    HashType { name: "Skein256_64", family: Family::Skein, block: 32, out: 64, dispatching: false },
    HashType { name: "Skein512_20", family: Family::Skein, block: 64, out: 20, dispatching: false },
    HashType { name: "Skein1024_8", family: Family::Skein, block: 128, out: 8, dispatching: false },
    HashType { name: "Skein256_128", family: Family::Skein, block: 32, out: 128, dispatching: false },
    // one byte; one byte more than a state block (a second, truncated output block) for each state size; several blocks + odd
    HashType { name: "Skein256_1", family: Family::Skein, block: 32, out: 1, dispatching: false },
    HashType { name: "Skein256_33", family: Family::Skein, block: 32, out: 33, dispatching: false },
    HashType { name: "Skein512_65", family: Family::Skein, block: 64, out: 65, dispatching: false },
    HashType { name: "Skein1024_129", family: Family::Skein, block: 128, out: 129, dispatching: false },
    HashType { name: "Skein512_200", family: Family::Skein, block: 64, out: 200, dispatching: false },
    // the remaining output sizes the Skein paper names (128, 160, 224, 256, 384, 512 bits): an implementation may treat
    // exactly these specially (precomputed chaining values)
    HashType { name: "Skein256_16", family: Family::Skein, block: 32, out: 16, dispatching: false },
    HashType { name: "Skein256_20", family: Family::Skein, block: 32, out: 20, dispatching: false },
    HashType { name: "Skein256_28", family: Family::Skein, block: 32, out: 28, dispatching: false },
    HashType { name: "Skein512_16", family: Family::Skein, block: 64, out: 16, dispatching: false },
    HashType { name: "Skein512_28", family: Family::Skein, block: 64, out: 28, dispatching: false },
    HashType { name: "Skein512_32", family: Family::Skein, block: 64, out: 32, dispatching: false },
    HashType { name: "Skein512_48", family: Family::Skein, block: 64, out: 48, dispatching: false },
    HashType { name: "Skein1024_48", family: Family::Skein, block: 128, out: 48, dispatching: false },
    HashType { name: "Skein1024_64", family: Family::Skein, block: 128, out: 64, dispatching: false },
];

pub fn type_index(name: &str) -> Option<usize> {
    TYPES.iter().position(|t| t.name == name)
}

pub fn new_hash(idx: usize) -> Box<dyn HashObj> {
    match idx {
        0 => Box::new(Blake224::default()),
        1 => Box::new(Blake256::default()),
        2 => Box::new(Blake384::default()),
        3 => Box::new(Blake512::default()),
        4 => Box::new(Groestl224::default()),
        5 => Box::new(Groestl256::default()),
        6 => Box::new(Groestl384::default()),
        7 => Box::new(Groestl512::default()),
        8 => Box::new(Jh224::default()),
        9 => Box::new(Jh256::default()),
        10 => Box::new(Jh384::default()),
        11 => Box::new(Jh512::default()),
        12 => Box::new(Skein256::<U32>::default()),
        13 => Box::new(Skein512::<U64>::default()),
        14 => Box::new(Skein1024::<U128>::default()),
        15 => Box::new(Skein256::<U64>::default()),
        16 => Box::new(Skein512::<U20>::default()),
        17 => Box::new(Skein1024::<U8>::default()),
        18 => Box::new(Skein256::<U128>::default()),
        19 => Box::new(Skein256::<U1>::default()),
        20 => Box::new(Skein256::<U33>::default()),
        21 => Box::new(Skein512::<U65>::default()),
        22 => Box::new(Skein1024::<U129>::default()),
        23 => Box::new(Skein512::<U200>::default()),
        24 => Box::new(Skein256::<U16>::default()),
        25 => Box::new(Skein256::<U20>::default()),
        26 => Box::new(Skein256::<U28>::default()),
        27 => Box::new(Skein512::<U16>::default()),
        28 => Box::new(Skein512::<U28>::default()),
        29 => Box::new(Skein512::<U32>::default()),
        30 => Box::new(Skein512::<U48>::default()),
        31 => Box::new(Skein1024::<U48>::default()),
        _ => Box::new(Skein1024::<U64>::default()),
    }
}

/// one-shot digest through the type's own `Digest::digest`
pub fn oneshot(idx: usize, data: &[u8]) -> Vec<u8> {
    match idx {
        0 => Blake224::digest(data).to_vec(),
        1 => Blake256::digest(data).to_vec(),
        2 => Blake384::digest(data).to_vec(),
        3 => Blake512::digest(data).to_vec(),
        4 => Groestl224::digest(data).to_vec(),
        5 => Groestl256::digest(data).to_vec(),
        6 => Groestl384::digest(data).to_vec(),
        7 => Groestl512::digest(data).to_vec(),
        8 => Jh224::digest(data).to_vec(),
        9 => Jh256::digest(data).to_vec(),
        10 => Jh384::digest(data).to_vec(),
        11 => Jh512::digest(data).to_vec(),
        12 => Skein256::<U32>::digest(data).to_vec(),
        13 => Skein512::<U64>::digest(data).to_vec(),
        14 => Skein1024::<U128>::digest(data).to_vec(),
        15 => Skein256::<U64>::digest(data).to_vec(),
        16 => Skein512::<U20>::digest(data).to_vec(),
        17 => Skein1024::<U8>::digest(data).to_vec(),
        18 => Skein256::<U128>::digest(data).to_vec(),
        19 => Skein256::<U1>::digest(data).to_vec(),
        20 => Skein256::<U33>::digest(data).to_vec(),
        21 => Skein512::<U65>::digest(data).to_vec(),
        22 => Skein1024::<U129>::digest(data).to_vec(),
        23 => Skein512::<U200>::digest(data).to_vec(),
        24 => Skein256::<U16>::digest(data).to_vec(),
        25 => Skein256::<U20>::digest(data).to_vec(),
        26 => Skein256::<U28>::digest(data).to_vec(),
        27 => Skein512::<U16>::digest(data).to_vec(),
        28 => Skein512::<U28>::digest(data).to_vec(),
        29 => Skein512::<U32>::digest(data).to_vec(),
        30 => Skein512::<U48>::digest(data).to_vec(),
        31 => Skein1024::<U48>::digest(data).to_vec(),
        _ => Skein1024::<U64>::digest(data).to_vec(),
    }
}
