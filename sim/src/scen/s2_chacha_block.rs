//! S2 `chacha_block`: refill/refill4/stream-parameter/equality histories on the public block API (C14, C15).
use crate::hosts;
use crate::kit::json::{hex, unhex, J};
use crate::kit::rng::{Rng, Streams};
use crate::kit::sim::{guarded, Op, Scenario, Stats, Step, Violation};
use crate::refm::chacha as spec;
use c2_chacha::guts::ChaCha;

pub struct Task {
    pub real: ChaCha,
    /// model: key words and the four `d` words (counter lo, counter hi, stream id lo, stream id hi)
    pub key: [u32; 8],
    pub d: [u32; 4],
}

pub struct World {
    pub host: u8,
    pub tasks: Vec<Task>,
    pub swarm: J,
    pub log: u64,
    pub steps: u64,
    pub tlogs: Vec<u64>,
}

pub struct S2;

fn key_bytes(k: &[u32; 8]) -> [u8; 32] {
    let mut b = [0u8; 32];
    for i in 0..8 {
        b[4 * i..4 * i + 4].copy_from_slice(&k[i].to_le_bytes());
    }
    b
}

fn ctr(d: &[u32; 4]) -> u64 {
    (d[1] as u64) << 32 | d[0] as u64
}
fn sid(d: &[u32; 4]) -> u64 {
    (d[3] as u64) << 32 | d[2] as u64
}
fn set_ctr(d: &mut [u32; 4], v: u64) {
    d[0] = v as u32;
    d[1] = (v >> 32) as u32;
}

/// a state created directly from model values through the public constructor (+ counter parameter)
fn direct(key: &[u32; 8], d: &[u32; 4]) -> ChaCha {
    let mut nonce = [0u8; 12];
    nonce[0..4].copy_from_slice(&d[1].to_le_bytes());
    nonce[4..8].copy_from_slice(&d[2].to_le_bytes());
    nonce[8..12].copy_from_slice(&d[3].to_le_bytes());
    let mut c = ChaCha::new(&key_bytes(key), &nonce);
    if d[0] != 0 {
        c.set_stream_param(0, ctr(d));
    }
    c
}

fn counter_value(r: &mut Rng) -> u64 {
    match r.below(8) {
        0 => 0,
        1 | 2 => (1u64 << 32) - r.range(0, 5),
        3 => (1u64 << 32) + r.range(0, 3),
        4 | 5 => u64::MAX - r.range(0, 5),
        6 => ((r.next() & 0xffff_ffff) << 32) | ((1u64 << 32) - r.range(1, 4)),
        _ => r.next(),
    }
}

fn dr_value(r: &mut Rng) -> u128 {
    *r.pick(&[0u128, 1, 2, 3, 4, 4, 5, 6, 6, 7, 8, 9, 10, 10, 11, 12, 16, 20])
}

fn state_class(d: &[u32; 4]) -> [u64; 3] {
    let lo = d[0];
    let lane = (0u32.wrapping_sub(lo)) as u64; // distance of the low word to its carry
    let lo_c = if lane >= 1 && lane <= 4 { lane } else if lo == 0 { 5 } else { 0 };
    let hi_c = match d[1] {
        0 => 0,
        u32::MAX => 1,
        _ => 2,
    };
    let near_wrap = (ctr(d) > u64::MAX - 4) as u64;
    [lo_c, hi_c, near_wrap]
}

impl Scenario for S2 {
    type World = World;
    fn name(&self) -> &'static str {
        "chacha_block"
    }
    fn gen_setup(&self, mix: &str, st: &mut Streams) -> J {
        let sw = &mut st.swarm;
        let n = sw.range(1, 3);
        let mut tasks = Vec::new();
        for _ in 0..n {
            let key = match sw.below(5) {
                0 => vec![0u8; 32],
                1 => vec![0xff; 32],
                2 => st.data.boundary_words(32),
                _ => st.data.bytes(32),
            };
            let nl = if sw.chance(1, 2) { 8 } else { 12 };
            let nonce = match sw.below(5) {
                0 => vec![0u8; nl],
                1 => vec![0xff; nl],
                2 | 3 => st.data.boundary_words(nl),
                _ => st.data.bytes(nl),
            };
            tasks.push(J::obj().set("key", J::S(hex(&key))).set("nonce", J::S(hex(&nonce))).set("kalign", J::U(st.place.below(16) as u128)));
        }
        let c15 = mix == "C15";
        let swarm = J::obj()
            .set("w_refill", J::U(sw.range(1, 4) as u128))
            .set("w_refill4", J::U(if c15 { sw.range(0, 1) } else { sw.range(1, 4) } as u128))
            .set("w_fork4", J::U(if c15 { sw.range(0, 1) } else { sw.range(1, 5) } as u128))
            .set("w_setp", J::U(if c15 { sw.range(2, 5) } else { sw.range(1, 3) } as u128))
            .set("w_getp", J::U(if c15 { sw.range(1, 3) } else { sw.range(0, 1) } as u128))
            .set("w_derive", J::U(if mix == "C18" { sw.range(0, 0) } else if c15 { sw.range(2, 5) } else { sw.range(0, 1) } as u128))
            .set("w_direct", J::U(if c15 { sw.range(1, 4) } else { sw.range(0, 1) } as u128))
            .set("nops", J::U(sw.range(4, 32) as u128));
        J::obj().set("host", J::U(hosts::pick_level(sw) as u128)).set("tasks", J::A(tasks)).set("swarm", swarm)
    }
    fn new_world(&self, setup: &J) -> World {
        let host = setup.u_or("host", 0) as u8;
        hosts::set_current(host);
        let mut tasks = Vec::new();
        for t in setup.arr("tasks") {
            let mut key = unhex(t.s("key").unwrap_or(""));
            key.resize(32, 0);
            let mut nonce = unhex(t.s("nonce").unwrap_or(""));
            if nonce.len() != 12 {
                nonce.resize(8, 0);
            }
            // key and nonce at a chosen alignment (the caller's buffers are part of the environment)
            let ka = (t.u_or("kalign", 0) % 16) as usize;
            let mut store = vec![0u8; 32 + 16 + 32 + 16 + 16];
            let base = (16 - (store.as_ptr() as usize % 16)) % 16;
            let ko = base + ka;
            store[ko..ko + 32].copy_from_slice(&key);
            let no = base + 48 + (ka * 7 + 3) % 16;
            store[no..no + nonce.len()].copy_from_slice(&nonce);
            let karr: &[u8; 32] = store[ko..ko + 32].try_into().unwrap();
            let real = ChaCha::new(karr, &store[no..no + nonce.len()]);
            let w = |b: &[u8]| u32::from_le_bytes([b[0], b[1], b[2], b[3]]);
            let d = if nonce.len() == 12 { [0, w(&nonce[0..4]), w(&nonce[4..8]), w(&nonce[8..12])] } else { [0, 0, w(&nonce[0..4]), w(&nonce[4..8])] };
            tasks.push(Task { real, key: spec::key_words(&key), d });
        }
        World { host, tasks, swarm: setup.get("swarm").cloned().unwrap_or(J::obj()), log: 0, steps: 0, tlogs: vec![] }
    }
    fn gen_op(&self, w: &World, _mix: &str, st: &mut Streams) -> Option<Op> {
        if w.tasks.is_empty() || w.steps >= w.swarm.u_or("nops", 24) as u64 {
            return None;
        }
        let ti = st.sched.below(w.tasks.len() as u64) as u32;
        let r = &mut st.ops;
        let sw = &w.swarm;
        let wts = [
            ("refill", sw.u_or("w_refill", 2)),
            ("refill4", sw.u_or("w_refill4", 2)),
            ("fork4", sw.u_or("w_fork4", 2)),
            ("setp", sw.u_or("w_setp", 2)),
            ("getp", sw.u_or("w_getp", 1)),
            ("derive", if w.tasks.len() < 6 { sw.u_or("w_derive", 1) } else { 0 }),
            ("direct", sw.u_or("w_direct", 1)),
        ];
        let total: u128 = wts.iter().map(|x| x.1).sum();
        let mut c = r.below(total.max(1) as u64) as u128;
        let mut kind = "refill";
        for (k, wt) in wts.iter() {
            if c < *wt {
                kind = k;
                break;
            }
            c -= wt;
        }
        Some(match kind {
            "refill" | "refill4" | "fork4" => Op::new(ti, kind, &[("dr", dr_value(r))]),
            "setp" => {
                let param = r.below(2) as u128;
                let v = if param == 0 { counter_value(r) } else { *r.pick(&[0u64, u64::MAX, 1, 1 << 32, 0xffff_ffff]) ^ if r.chance(1, 2) { r.next() } else { 0 } };
                Op::new(ti, "setp", &[("param", param), ("value", v as u128)])
            }
            "getp" => Op::new(ti, "getp", &[("param", r.below(2) as u128)]),
            "derive" => Op::new(ti, "derive", &[("how", r.below(12) as u128), ("bit", r.below(32) as u128), ("word", r.below(8) as u128), ("k", r.range(1, 5) as u128), ("mask", if r.chance(1, 2) { 0 } else { r.next() as u32 as u128 })]),
            _ => Op::new(ti, "direct", &[("dr", dr_value(r))]),
        })
    }
    fn step(&self, w: &mut World, op: &Op, stats: &mut Stats) -> Step {
        hosts::set_current(w.host);
        let ti = op.t as usize;
        if ti >= w.tasks.len() {
            return Step::Skip;
        }
        w.steps += 1;
        let mut rh = 0u64;
        let r = step_inner(w, ti, op, stats, &mut rh);
        if ti >= w.tlogs.len() {
            w.tlogs.resize(ti + 1, 0);
        }
        w.tlogs[ti] = (w.tlogs[ti].rotate_left(7) ^ op.hash_nt()).wrapping_mul(0x9e37_79b9_7f4a_7c15) ^ rh;
        w.log = (w.log.rotate_left(7) ^ op.hash()).wrapping_mul(0x9e37_79b9_7f4a_7c15) ^ rh;
        r
    }
    fn log_digest(&self, w: &World) -> u64 {
        w.log
    }
    fn task_logs(&self, w: &World) -> Vec<u64> {
        w.tlogs.clone()
    }
    fn shrink_setup(&self, setup: &J, ops: &[Op]) -> Vec<(J, Vec<Op>)> {
        let mut out = Vec::new();
        if setup.u_or("host", 0) != 0 {
            out.push((setup.clone().set("host", J::U(0)), ops.to_vec()));
        }
        out
    }
    fn shrink_values(&self, _op: &Op, arg: &str, v: u128) -> Vec<u128> {
        let mut c: Vec<u128> = match arg {
            "dr" => vec![0, 1, 4],
            "value" => vec![0, 1, (1u128 << 32) - 1, 1u128 << 32, u64::MAX as u128, v & 0xffff_ffff, v >> 32 << 32],
            "param" | "how" => vec![],
            _ => vec![0, 1],
        };
        c.retain(|x| *x < v);
        c
    }
}

fn hash_bytes(b: &[u8]) -> u64 {
    let mut h = 0xcbf2_9ce4_8422_2325u64;
    for x in b {
        h = (h ^ *x as u64).wrapping_mul(0x1000_0000_01b3);
    }
    h
}

/// does `out` equal the spec block of this key/stream for a *nearby* counter? (explains a position error)
fn explain_counter(key: &[u32; 8], d: &[u32; 4], dr: u32, out: &[u8]) -> Option<i64> {
    for k in -5i64..=9 {
        let mut dd = *d;
        set_ctr(&mut dd, ctr(d).wrapping_add(k as u64));
        if spec::block(key, &dd, dr)[..] == *out {
            return Some(k);
        }
        // carry leaked into / dropped from the stream id
        let mut d2 = dd;
        d2[2] = d2[2].wrapping_add(1);
        if spec::block(key, &d2, dr)[..] == *out {
            return Some(k + 1000);
        }
        let mut d3 = *d;
        d3[0] = d[0].wrapping_add(k as u32); // 32-bit add without carry into the high word
        if d3 != dd && spec::block(key, &d3, dr)[..] == *out {
            return Some(k + 2000);
        }
    }
    None
}

fn check_params(t: &Task, what: &str, props: &[&str]) -> Option<Violation> {
    let (g0, g1) = match guarded(|| (t.real.get_stream_param(0), t.real.get_stream_param(1))) {
        Ok(v) => v,
        Err(m) => return Some(Violation::new(props, "P0", format!("get_stream_param panics after {}", what), m)),
    };
    if g0 != ctr(&t.d) {
        let kind = if g0 & 0xffff_ffff == ctr(&t.d) & 0xffff_ffff { "high word" } else { "low word" };
        return Some(Violation::new(
            props,
            "P1",
            format!("block counter wrong after {}:{}", what, kind),
            format!("get_stream_param(0) = {:#x}, model {:#x}", g0, ctr(&t.d)),
        ));
    }
    if g1 != sid(&t.d) {
        return Some(Violation::new(props, "P2", format!("stream id changed by {}", what), format!("get_stream_param(1) = {:#x}, model {:#x}", g1, sid(&t.d))));
    }
    None
}

fn step_inner(w: &mut World, ti: usize, op: &Op, stats: &mut Stats, rh: &mut u64) -> Step {
    let name = op.name.as_str();
    match name {
        "refill" | "refill4" => {
            let dr = (op.get("dr") as u32).min(20);
            let n = if name == "refill4" { 4 } else { 1 };
            let t = &mut w.tasks[ti];
            let before = t.d;
            let sc = state_class(&before);
            stats.hit(if n == 4 { "op.refill4" } else { "op.refill" });
            if sc[0] >= 1 && sc[0] <= 4 && n == 4 {
                stats.hit(&format!("fault.low_word_carry_in_lane_{}", sc[0]));
            }
            if sc[2] == 1 {
                stats.hit("fault.counter_wraps_2^64");
            }
            if dr == 0 {
                stats.hit("probe.zero_double_rounds");
            }
            let mut out = vec![0u8; 64 * n];
            let res = guarded(|| {
                if n == 4 {
                    let mut b = [0u8; 256];
                    t.real.refill4(dr, &mut b);
                    out.copy_from_slice(&b);
                } else {
                    let mut b = [0u8; 64];
                    t.real.refill(dr, &mut b);
                    out.copy_from_slice(&b);
                }
            });
            if let Err(m) = res {
                let sig = if ctr(&before) > u64::MAX - 4 { format!("{} panics:ctr=2^64-{}", name, (u64::MAX - ctr(&before)) + 1) } else { format!("{} panics", name) };
                return Step::Fail(Violation::new(&["C14"], "R0", sig, format!("{}({}) at counter {:#x}: {}", name, dr, ctr(&before), m)));
            }
            *rh = hash_bytes(&out);
            // expected bytes from the spec model
            let mut want = Vec::new();
            for i in 0..n as u64 {
                let mut dd = before;
                set_ctr(&mut dd, ctr(&before).wrapping_add(i));
                want.extend_from_slice(&spec::block(&t.key, &dd, dr));
            }
            set_ctr(&mut t.d, ctr(&before).wrapping_add(n as u64));
            if out != want {
                // decide: position error (C14) or consistent deviation of the block function (C01 territory)?
                let bi = (0..n).find(|i| out[64 * i..64 * i + 64] != want[64 * i..64 * i + 64]).unwrap();
                let mut dd = before;
                set_ctr(&mut dd, ctr(&before).wrapping_add(bi as u64));
                match explain_counter(&t.key, &dd, dr, &out[64 * bi..64 * bi + 64]) {
                    Some(k) => {
                        return Step::Fail(Violation::new(
                            &["C14"],
                            "R1",
                            format!("{} emits the block of another counter:block {}:lowclass={}", name, bi, sc[0]),
                            format!("{}({}) at counter {:#x}: block {} equals the block for counter offset code {}", name, dr, ctr(&before), bi, k),
                        ));
                    }
                    None => {
                        // differential: the same state created directly, advanced by single refills
                        let mut alt = direct(&t.key, &before);
                        let mut alt_out = Vec::new();
                        let ok = guarded(|| {
                            for _ in 0..n {
                                let mut b = [0u8; 64];
                                alt.refill(dr, &mut b);
                                alt_out.extend_from_slice(&b);
                            }
                        });
                        if ok.is_err() || alt_out != out {
                            return Step::Fail(Violation::new(
                                &["C14", "C15"],
                                "R2",
                                format!("{} differs from single refills of a directly created state:lowclass={}", name, sc[0]),
                                format!("{}({}) at counter {:#x}, block {}", name, dr, ctr(&before), bi),
                            ));
                        }
                        stats.note("consistent_deviation_from_spec_block_function(C01 territory, not decided here)");
                    }
                }
            }
            if let Some(v) = check_params(t, name, &["C14"]) {
                return Step::Fail(v);
            }
            stats.state(&[2, if n == 4 { 1 } else { 0 }, sc[0], sc[1], sc[2], dr.min(11) as u64]);
            Step::Done
        }
        "fork4" => {
            let dr = (op.get("dr") as u32).min(20);
            let t = &mut w.tasks[ti];
            let before = t.d;
            let sc = state_class(&before);
            stats.hit("op.fork4");
            if sc[0] >= 1 && sc[0] <= 4 {
                stats.hit(&format!("fault.low_word_carry_in_lane_{}", sc[0]));
            }
            if sc[2] == 1 {
                stats.hit("fault.counter_wraps_2^64");
            }
            let mut a = t.real.clone();
            let mut b = t.real.clone();
            let mut oa = [0u8; 256];
            let mut ob = [0u8; 256];
            let res = guarded(|| {
                a.refill4(dr, &mut oa);
                for i in 0..4 {
                    let mut blk = [0u8; 64];
                    b.refill(dr, &mut blk);
                    ob[64 * i..64 * i + 64].copy_from_slice(&blk);
                }
            });
            if let Err(m) = res {
                let sig = if ctr(&before) > u64::MAX - 4 { format!("refill panics:ctr=2^64-{}", (u64::MAX - ctr(&before)) + 1) } else { "refill/refill4 panics".to_string() };
                return Step::Fail(Violation::new(&["C14"], "R0", sig, format!("fork at counter {:#x} dr {}: {}", ctr(&before), dr, m)));
            }
            *rh = hash_bytes(&oa);
            if oa != ob {
                let bi = (0..4).find(|i| oa[64 * i..64 * i + 64] != ob[64 * i..64 * i + 64]).unwrap();
                return Step::Fail(Violation::new(
                    &["C14"],
                    "F1",
                    format!("refill4 bytes differ from four refills:block {}:lowclass={}:wrap={}", bi, sc[0], sc[2]),
                    format!("counter {:#x}, dr {}, first differing block {}", ctr(&before), dr, bi),
                ));
            }
            if a != b || a.get_stream_param(0) != b.get_stream_param(0) || a.get_stream_param(1) != b.get_stream_param(1) {
                return Step::Fail(Violation::new(
                    &["C14"],
                    "F2",
                    format!("refill4 leaves a different state than four refills:lowclass={}:wrap={}", sc[0], sc[2]),
                    format!("counter {:#x}: after refill4 param0={:#x} param1={:#x}; after 4 refills param0={:#x} param1={:#x}", ctr(&before), a.get_stream_param(0), a.get_stream_param(1), b.get_stream_param(0), b.get_stream_param(1)),
                ));
            }
            // continue the history on one of the two copies, chosen by the op (keeps both paths in play)
            t.real = if dr % 2 == 0 { a } else { b };
            set_ctr(&mut t.d, ctr(&before).wrapping_add(4));
            if let Some(v) = check_params(t, "refill4/4xrefill", &["C14"]) {
                return Step::Fail(v);
            }
            // bytes against the spec (filter only)
            let mut want = Vec::new();
            for i in 0..4u64 {
                let mut dd = before;
                set_ctr(&mut dd, ctr(&before).wrapping_add(i));
                want.extend_from_slice(&spec::block(&t.key, &dd, dr));
            }
            if want[..] != oa[..] {
                let bi = (0..4).find(|i| oa[64 * i..64 * i + 64] != want[64 * i..64 * i + 64]).unwrap();
                let mut dd = before;
                set_ctr(&mut dd, ctr(&before).wrapping_add(bi as u64));
                if let Some(k) = explain_counter(&t.key, &dd, dr, &oa[64 * bi..64 * bi + 64]) {
                    return Step::Fail(Violation::new(
                        &["C14"],
                        "R1",
                        format!("both refill paths emit the block of another counter:block {}:lowclass={}", bi, sc[0]),
                        format!("counter {:#x} dr {}: block {} equals the block for counter offset code {}", ctr(&before), dr, bi, k),
                    ));
                }
                stats.note("consistent_deviation_from_spec_block_function(C01 territory, not decided here)");
            }
            stats.state(&[3, 0, sc[0], sc[1], sc[2], dr.min(11) as u64]);
            Step::Done
        }
        "setp" => {
            let param = (op.get("param") & 1) as u32;
            let v = op.get("value") as u64;
            let t = &mut w.tasks[ti];
            stats.hit(&format!("op.set_stream_param{}", param));
            if let Err(m) = guarded(|| t.real.set_stream_param(param, v)) {
                return Step::Fail(Violation::new(&["C15"], "P0", "set_stream_param panics".into(), m));
            }
            if param == 0 {
                set_ctr(&mut t.d, v);
            } else {
                t.d[2] = v as u32;
                t.d[3] = (v >> 32) as u32;
            }
            if let Some(viol) = check_params(t, &format!("set_stream_param({})", param), &["C15"]) {
                return Step::Fail(viol);
            }
            *rh = v;
            let sc = state_class(&t.d);
            stats.state(&[4, param as u64, sc[0], sc[1], sc[2]]);
            Step::Done
        }
        "getp" => {
            let t = &w.tasks[ti];
            stats.hit("op.get_stream_param");
            if let Some(viol) = check_params(t, "history", &["C15", "C14"]) {
                return Step::Fail(viol);
            }
            Step::Done
        }
        "direct" => {
            // the output that follows equals that of a state created directly with the model's values
            let dr = (op.get("dr") as u32).min(20);
            let t = &mut w.tasks[ti];
            stats.hit("op.compare_with_directly_created_state");
            let before = t.d;
            let mut alt = match guarded(|| direct(&t.key, &before)) {
                Ok(a) => a,
                Err(m) => return Step::Fail(Violation::new(&["C15"], "D0", "creating a state directly panics".into(), m)),
            };
            if before[0] == 0 {
                stats.hit("probe.direct_state_without_set_stream_param");
            }
            if alt != t.real {
                return Step::Fail(Violation::new(&["C15"], "D1", "state after history differs from directly created state".into(), format!("d = {:x?}", before)));
            }
            let mut o1 = [0u8; 64];
            let mut o2 = [0u8; 64];
            if let Err(m) = guarded(|| {
                t.real.refill(dr, &mut o1);
                alt.refill(dr, &mut o2);
            }) {
                let sig = if ctr(&before) == u64::MAX { "refill panics:ctr=2^64-1".to_string() } else { "refill panics".to_string() };
                return Step::Fail(Violation::new(&["C14"], "R0", sig, m));
            }
            set_ctr(&mut t.d, ctr(&before).wrapping_add(1));
            *rh = hash_bytes(&o1);
            if o1 != o2 {
                return Step::Fail(Violation::new(&["C15"], "D2", "output after set/refill history differs from a directly created state".into(), format!("d = {:x?} dr {}", before, dr)));
            }
            let want = spec::block(&t.key, &before, dr);
            if want != o1 {
                if let Some(k) = explain_counter(&t.key, &before, dr, &o1) {
                    return Step::Fail(Violation::new(&["C14", "C15"], "R1", "refill emits the block of other parameters".into(), format!("d = {:x?}: offset code {}", before, k)));
                }
                // key or stream id not what was set?
                stats.note("consistent_deviation_from_spec_block_function(C01 territory, not decided here)");
            }
            stats.state(&[5, (before[0] == 0) as u64, state_class(&before)[0], state_class(&before)[1]]);
            Step::Done
        }
        "derive" => {
            if w.tasks.len() >= 8 {
                return Step::Skip;
            }
            let how = op.get("how") % 12;
            // how 7..=11: several words differ at once, often by the same mask (differences that would cancel under xor)
            let mask: u32 = if op.get("mask") as u32 != 0 { op.get("mask") as u32 } else { 1u32 << ((op.get("bit") % 32) as u32) };
            const HOWS: [&str; 12] = ["clone", "refills", "key_word", "d1", "d2", "d3", "rebuilt", "d2+d3", "d1+d2", "d1+d3", "two_key_words", "key_word+d3"];
            let bit = (op.get("bit") % 32) as u32;
            let word = (op.get("word") % 8) as usize;
            let k = op.get("k").min(8) as u32;
            let (akey, ad) = (w.tasks[ti].key, w.tasks[ti].d);
            let mut bkey = akey;
            let mut bd = ad;
            stats.hit(&format!("op.derive.{}", HOWS[how as usize]));
            let a = w.tasks[ti].real.clone();
            let made = guarded(|| {
                let mut b = a.clone();
                match how {
                    0 => {}
                    1 => {
                        for _ in 0..k {
                            let mut o = [0u8; 64];
                            b.refill(1, &mut o);
                        }
                    }
                    2 => {
                        let mut kk = akey;
                        kk[word] ^= 1 << bit;
                        b = direct(&kk, &ad);
                    }
                    3 => b.set_stream_param(0, ctr(&ad) ^ (1u64 << (32 + bit))),
                    4 => b.set_stream_param(1, sid(&ad) ^ (1u64 << bit)),
                    5 => b.set_stream_param(1, sid(&ad) ^ (1u64 << (32 + bit))),
                    6 => b = direct(&akey, &ad),
                    7 => b.set_stream_param(1, sid(&ad) ^ (mask as u64) ^ ((mask as u64) << 32)),
                    8 => {
                        b.set_stream_param(0, ctr(&ad) ^ ((mask as u64) << 32));
                        b.set_stream_param(1, sid(&ad) ^ (mask as u64));
                    }
                    9 => {
                        b.set_stream_param(0, ctr(&ad) ^ ((mask as u64) << 32));
                        b.set_stream_param(1, sid(&ad) ^ ((mask as u64) << 32));
                    }
                    10 => {
                        let mut kk = akey;
                        kk[word] ^= mask;
                        kk[(word + 1 + (bit as usize % 7)) % 8] ^= mask;
                        b = direct(&kk, &ad);
                    }
                    _ => {
                        let mut kk = akey;
                        kk[word] ^= mask;
                        let mut dd = ad;
                        dd[3] ^= mask;
                        b = direct(&kk, &dd);
                    }
                }
                b
            });
            let b = match made {
                Ok(b) => b,
                Err(m) => {
                    let sig = if how == 1 && ctr(&ad) > u64::MAX - 8 { "refill panics:ctr=2^64-1".to_string() } else { "derive panics".to_string() };
                    return Step::Fail(Violation::new(if how == 1 { &["C14"] } else { &["C15"] }, "R0", sig, m));
                }
            };
            match how {
                1 => set_ctr(&mut bd, ctr(&ad).wrapping_add(k as u64)),
                2 => bkey[word] ^= 1 << bit,
                3 => bd[1] ^= 1 << bit,
                4 => bd[2] ^= 1 << bit,
                5 => bd[3] ^= 1 << bit,
                7 => {
                    bd[2] ^= mask;
                    bd[3] ^= mask;
                }
                8 => {
                    bd[1] ^= mask;
                    bd[2] ^= mask;
                }
                9 => {
                    bd[1] ^= mask;
                    bd[3] ^= mask;
                }
                10 => {
                    bkey[word] ^= mask;
                    bkey[(word + 1 + (bit as usize % 7)) % 8] ^= mask;
                }
                11 => {
                    bkey[word] ^= mask;
                    bd[3] ^= mask;
                }
                _ => {}
            }
            let same_key = akey == bkey;
            let want32 = same_key && ad[1..4] == bd[1..4];
            let want64 = same_key && ad[2..4] == bd[2..4];
            let a = &w.tasks[ti].real;
            let (g32, g64, r32, r64) = (a.stream32_eq(&b), a.stream64_eq(&b), b.stream32_eq(a), b.stream64_eq(a));
            *rh = (g32 as u64) | (g64 as u64) << 1;
            let hows = HOWS[how as usize];
            if g32 != want32 || r32 != want32 {
                return Step::Fail(Violation::new(
                    &["C15"],
                    "E32",
                    format!("stream32_eq wrong:differ_by={}:want={}", hows, want32),
                    format!("a.d={:x?} b.d={:x?} same_key={} stream32_eq={} (reverse {})", ad, bd, same_key, g32, r32),
                ));
            }
            if g64 != want64 || r64 != want64 {
                return Step::Fail(Violation::new(
                    &["C15"],
                    "E64",
                    format!("stream64_eq wrong:differ_by={}:want={}", hows, want64),
                    format!("a.d={:x?} b.d={:x?} same_key={} stream64_eq={} (reverse {})", ad, bd, same_key, g64, r64),
                ));
            }
            if (how == 0 || how == 6) && *a != b {
                return Step::Fail(Violation::new(&["C15"], "D1", "state after history differs from directly created state".into(), format!("how={} d={:x?}", hows, ad)));
            }
            stats.state(&[6, how as u64, want32 as u64, want64 as u64, (word == 0 || word == 7) as u64]);
            w.tasks.push(Task { real: b, key: bkey, d: bd });
            Step::Done
        }
        _ => Step::Skip,
    }
}
