//! S6 `counters`: the length counter of a hash is its clock; hook H2 lets the simulator jump it next to a
//! word boundary in the implementation and in the independent reference alike (C17).
use super::hashes::{new_hash, Family, HashObj, TYPES};
use crate::hosts;
use crate::kit::json::J;
use crate::kit::rng::{pattern, Rng, Streams};
use crate::kit::sim::{guarded, hash_bytes, Op, Scenario, Stats, Step, Violation};
use crate::refm::{blake::Blake, groestl::Groestl, jh::Jh, skein::Skein};

#[derive(Clone)]
pub enum Ref {
    B(Blake),
    G(Groestl),
    J(Jh),
    S(Skein),
}

impl Ref {
    pub fn new(ty: usize) -> Ref {
        let t = &TYPES[ty];
        match t.family {
            Family::Blake => Ref::B(Blake::new(t.out * 8)),
            Family::Groestl => Ref::G(Groestl::new(t.out * 8)),
            Family::Jh => Ref::J(Jh::new(t.out * 8)),
            Family::Skein => Ref::S(Skein::new(t.block, t.out)),
        }
    }
    pub fn update(&mut self, d: &[u8]) {
        match self {
            Ref::B(h) => h.update(d),
            Ref::G(h) => h.update(d),
            Ref::J(h) => h.update(d),
            Ref::S(h) => h.update(d),
        }
    }
    pub fn finalize(self) -> Vec<u8> {
        match self {
            Ref::B(h) => h.finalize(),
            Ref::G(h) => h.finalize(),
            Ref::J(h) => h.finalize(),
            Ref::S(h) => h.finalize(),
        }
    }
    /// fast-forward: `blocks` blocks have been compressed
    pub fn jump(&mut self, blocks: u128, block_bytes: usize) {
        match self {
            Ref::B(h) => h.t = blocks * block_bytes as u128 * 8,
            Ref::G(h) => h.blocks = blocks as u64,
            Ref::J(h) => h.compressed = blocks * 64,
            Ref::S(h) => h.pos = blocks * block_bytes as u128,
        }
    }
}

/// largest number of compressed blocks (exclusive bound on blocks*b + buffered) the format / implementation allows
pub fn max_total_bytes(ty: usize) -> u128 {
    let t = &TYPES[ty];
    match t.family {
        // bit length must fit the length field: 64 bits (BLAKE-224/256), 128 bits (BLAKE-384/512)
        Family::Blake => {
            if t.block == 64 {
                (1u128 << 61) - 1
            } else {
                (1u128 << 125) - 1
            }
        }
        // the block count including padding blocks is a 64-bit field
        Family::Groestl => ((1u128 << 64) - 3) * t.block as u128,
        // 2^61 bytes "as implemented" (64-bit bit length)
        Family::Jh => (1u128 << 61) - 1,
        // 64-bit byte position
        Family::Skein => (1u128 << 64) - 1,
    }
}

/// the boundaries (in compressed blocks) worth standing next to, per type
pub fn boundaries(ty: usize) -> Vec<(u128, &'static str)> {
    let t = &TYPES[ty];
    let b = t.block as u128;
    let lim = max_total_bytes(ty) / b;
    match t.family {
        Family::Blake => {
            if t.block == 64 {
                vec![(1 << 23, "2^32 bits"), (lim, "format limit 2^64-1 bits"), (1 << 7, "2^16 bits"), (1 << 39, "2^48 bits")]
            } else {
                vec![(1 << 54, "2^64 bits"), (1 << 22, "2^32 bits (must not be special)"), (lim, "format limit 2^128-1 bits"), (1 << 86, "2^96 bits")]
            }
        }
        Family::Groestl => vec![(1 << 8, "2^8 blocks"), (1 << 16, "2^16 blocks"), (1 << 32, "2^32 blocks"), (lim, "2^64-3 blocks"), (1 << 24, "2^24 blocks"), (1 << 48, "2^48 blocks")],
        Family::Jh => vec![(1 << 23, "2^32 bits"), (1 << 26, "2^32 bytes"), (lim, "2^61 bytes (implemented limit)"), (1 << 10, "2^16 bytes")],
        Family::Skein => vec![((1u128 << 32) / b, "2^32 bytes"), (lim, "2^64 bytes (position limit)"), ((1u128 << 16) / b, "2^16 bytes"), ((1u128 << 48) / b, "2^48 bytes")],
    }
}

pub struct World {
    pub host: u8,
    pub ty: usize,
    pub real: Option<Box<dyn HashObj>>,
    pub reference: Option<Ref>,
    /// model: blocks compressed / bytes buffered (the true amounts)
    pub blocks: u128,
    pub buffered: usize,
    pub jumped: bool,
    pub baseline_ok: bool,
    pub swarm: J,
    pub log: u64,
    pub steps: u64,
    pub done: bool,
    /// the data pieces absorbed since construction / reset (to re-run the history without jumps)
    pub pieces: Vec<(u64, usize)>,
}

pub struct S6;

pub fn expected_counter(ty: usize, blocks: u128, buffered: usize) -> u128 {
    let t = &TYPES[ty];
    match t.family {
        Family::Blake => blocks * t.block as u128 * 8,
        Family::Groestl => blocks,
        Family::Jh => blocks * 64 + buffered as u128,
        Family::Skein => blocks * t.block as u128,
    }
}

/// model of the buffering policy: (blocks compressed by this update, new buffered amount)
pub fn absorb(ty: usize, buffered: usize, len: usize) -> (u128, usize) {
    let b = TYPES[ty].block;
    let tot = buffered + len;
    if TYPES[ty].family == Family::Skein {
        // lazy: the last (even full) block is held back
        if tot > b {
            let n = (tot - 1) / b;
            (n as u128, tot - n * b)
        } else {
            (0, tot)
        }
    } else {
        ((tot / b) as u128, tot % b)
    }
}

pub fn pick_k(r: &mut Rng, ty: usize) -> (u128, usize) {
    let bs = boundaries(ty);
    let i = if r.chance(3, 4) { r.below(2.min(bs.len() as u64)) as usize } else { r.below(bs.len() as u64) as usize };
    let bnd = bs[i].0;
    let delta = r.range(0, 6) as u128;
    let lim = max_total_bytes(ty) / TYPES[ty].block as u128;
    let k = if r.chance(1, 8) { bnd + r.range(0, 2) as u128 } else { bnd.saturating_sub(delta) };
    (k.min(lim), i)
}

impl Scenario for S6 {
    type World = World;
    fn name(&self) -> &'static str {
        "counters"
    }
    fn gen_setup(&self, _mix: &str, st: &mut Streams) -> J {
        let sw = &mut st.swarm;
        let ty = sw.below(TYPES.len() as u64) as usize;
        J::obj()
            .set("host", J::U(hosts::pick_level(sw) as u128))
            .set("type", J::str(TYPES[ty].name))
            .set("swarm", J::obj().set("pre", J::U(sw.range(0, 3) as u128)).set("post", J::U(sw.range(1, 6) as u128)).set("rejump", J::U(sw.chance(1, 4) as u128)).set("reset", J::U(sw.chance(1, 5) as u128)))
    }
    fn new_world(&self, setup: &J) -> World {
        let host = setup.u_or("host", 0) as u8;
        hosts::set_current(host);
        let ty = super::hashes::type_index(setup.s("type").unwrap_or("Blake256")).unwrap_or(1);
        // baseline conformance without any jump: if the implementation deviates from the reference already here,
        // digest comparisons cannot decide anything about counters (C04-C07 territory) and are suspended
        let msg = pattern(0x5eed | 2, 3 * TYPES[ty].block + 17);
        let baseline_ok = match guarded(|| {
            let mut h = new_hash(ty);
            h.update(&msg);
            h.finalize_box()
        }) {
            Ok(d) => {
                let mut r = Ref::new(ty);
                r.update(&msg);
                r.finalize() == d
            }
            Err(_) => false,
        };
        World {
            host,
            ty,
            real: guarded(|| new_hash(ty)).ok(),
            reference: Some(Ref::new(ty)),
            blocks: 0,
            buffered: 0,
            jumped: false,
            baseline_ok,
            swarm: setup.get("swarm").cloned().unwrap_or(J::obj()),
            log: 0,
            steps: 0,
            done: false,
            pieces: vec![],
        }
    }
    fn gen_op(&self, w: &World, _mix: &str, st: &mut Streams) -> Option<Op> {
        if w.done || w.real.is_none() {
            return None;
        }
        let r = &mut st.ops;
        let pre = w.swarm.u_or("pre", 1) as u64;
        let post = w.swarm.u_or("post", 3) as u64;
        let b = TYPES[w.ty].block as u64;
        let piece = |r: &mut Rng| -> u128 {
            (match r.below(8) {
                0 => 0,
                1 => 1,
                2 => b - 1,
                3 => b,
                4 => b + 1,
                5 => r.range(0, 3 * b),
                6 => 2 * b,
                _ => r.range(0, b),
            }) as u128
        };
        let s = w.steps;
        if s < pre {
            return Some(Op::new(0, "update", &[("len", piece(r)), ("dseed", st.data.next() as u128)]));
        }
        if s == pre {
            let (k, bi) = pick_k(r, w.ty);
            return Some(Op::new(0, "jump", &[("blocks", k), ("boundary", bi as u128)]));
        }
        if s <= pre + post {
            if w.swarm.u_or("reset", 0) == 1 && s == pre + 3 {
                // reuse after reset: the clock must be back at zero, and (next step) it is jumped again
                return Some(Op::new(0, "reset", &[("fixed", r.below(3) as u128)]));
            }
            if w.swarm.u_or("reset", 0) == 1 && s == pre + 4 && r.chance(1, 2) {
                let (k, bi) = pick_k(r, w.ty);
                return Some(Op::new(0, "jump", &[("blocks", k), ("boundary", bi as u128)]));
            }
            if w.swarm.u_or("rejump", 0) == 1 && s == pre + 2 {
                let (k, bi) = pick_k(r, w.ty);
                return Some(Op::new(0, "jump", &[("blocks", k), ("boundary", bi as u128)]));
            }
            return Some(Op::new(0, "update", &[("len", piece(r)), ("dseed", st.data.next() as u128)]));
        }
        Some(Op::new(0, "final", &[]))
    }
    fn step(&self, w: &mut World, op: &Op, stats: &mut Stats) -> Step {
        hosts::set_current(w.host);
        if w.done || w.real.is_none() {
            return Step::Skip;
        }
        let ty = w.ty;
        let t = &TYPES[ty];
        let b = t.block;
        let limit = max_total_bytes(ty);
        let mut rh = 0u64;
        let res = match op.name.as_str() {
            "update" => {
                let len = (op.get("len") as usize).min(1 << 16);
                let (nb, nbuf) = absorb(ty, w.buffered, len);
                // stay inside what the format allows (needed for shrunk / edited traces; the generator respects it already)
                if (w.blocks + nb) * b as u128 + nbuf as u128 > limit {
                    return Step::Skip;
                }
                let data = pattern(op.get("dseed") as u64, len);
                let before = (w.blocks, w.buffered);
                stats.hit("op.update");
                let real = w.real.as_mut().unwrap();
                if let Err(m) = guarded(|| real.update(&data)) {
                    return Step::Fail(Violation::new(
                        &["C17"],
                        "K0",
                        format!("update panics at a counter value the format allows:{}", t.name),
                        format!("{} update({}) with {} blocks compressed, {} buffered: {}", t.name, len, before.0, before.1, m),
                    ));
                }
                w.reference.as_mut().unwrap().update(&data);
                w.pieces.push((op.get("dseed") as u64, len));
                w.blocks += nb;
                w.buffered = nbuf;
                if w.jumped && nb > 0 {
                    stats.hit("probe.blocks_compressed_after_jump");
                    for (bnd, _) in boundaries(ty) {
                        if before.0 < bnd && w.blocks >= bnd {
                            stats.hit("fault.boundary_crossed_by_update");
                        }
                    }
                }
                rh = len as u64;
                Step::Done
            }
            "jump" => {
                let k = op.get("blocks");
                if k * b as u128 + w.buffered as u128 > limit {
                    return Step::Skip;
                }
                stats.hit("op.jump");
                let bi = op.get("boundary") as usize;
                let bs = boundaries(ty);
                if bi < bs.len() {
                    stats.hit(&format!("fault.clock_jump.{}:{}", t.name, bs[bi].1));
                }
                let v = expected_counter(ty, k, w.buffered);
                w.real.as_mut().unwrap().set_counter(v);
                w.reference.as_mut().unwrap().jump(k, b);
                w.blocks = k;
                w.jumped = true;
                rh = k as u64;
                Step::Done
            }
            "reset" => {
                // Reset / finalize_reset / finalize_fixed_reset: afterwards the instance is new and its clock reads zero
                stats.hit("op.reset_or_finalize_reset");
                let how = op.get("fixed") % 3;
                let real = w.real.as_mut().unwrap();
                if let Err(m) = guarded(|| match how {
                    0 => real.reset(),
                    1 => {
                        real.finalize_reset();
                    }
                    _ => {
                        real.finalize_fixed_reset();
                    }
                }) {
                    return Step::Fail(Violation::new(&["C17"], "K0", format!("reset/finalize_reset panics at a counter value the format allows:{}", t.name), m));
                }
                w.reference = Some(Ref::new(ty));
                w.pieces.clear();
                w.blocks = 0;
                w.buffered = 0;
                w.jumped = false;
                Step::Done
            }
            "final" => {
                stats.hit("op.finalize");
                let real = w.real.take().unwrap();
                let total = w.blocks * b as u128 + w.buffered as u128;
                let got = match guarded(|| real.finalize_box()) {
                    Ok(g) => g,
                    Err(m) => {
                        return Step::Fail(Violation::new(
                            &["C17"],
                            "K0",
                            format!("finalize panics at a counter value the format allows:{}", t.name),
                            format!("{} finalize with {} blocks compressed, {} buffered (total {} bytes): {}", t.name, w.blocks, w.buffered, total, m),
                        ))
                    }
                };
                w.done = true;
                rh = hash_bytes(&got);
                let want = w.reference.take().unwrap().finalize();
                // which boundary does the padding / final counter cross?
                if w.jumped {
                    for (bnd, _) in boundaries(ty) {
                        if w.blocks < bnd && w.blocks + 2 >= bnd {
                            stats.hit("fault.boundary_within_2_blocks_of_finalisation");
                        }
                    }
                }
                if !w.baseline_ok {
                    stats.note("baseline digest (no jump) already differs from the reference: digest comparison suspended (C04-C07 territory)");
                    Step::Done
                } else if got != want && {
                    // the same pieces without any jump: if implementation and reference disagree there as well, the
                    // deviation has nothing to do with the counter value (spec conformance, C04-C07: not decided here)
                    let pieces = w.pieces.clone();
                    let plain = guarded(|| {
                        let mut h = new_hash(ty);
                        let mut r = Ref::new(ty);
                        for (ds, l) in &pieces {
                            let d = pattern(*ds, *l);
                            h.update(&d);
                            r.update(&d);
                        }
                        h.finalize_box() == r.finalize()
                    });
                    plain != Ok(true)
                } {
                    stats.note("digest differs from the reference also without any counter jump (C04-C07 territory, not decided here)");
                    Step::Done
                } else if got != want {
                    let bs = boundaries(ty);
                    let near = bs.iter().filter(|(bnd, _)| w.blocks + 8 >= *bnd && w.blocks <= *bnd + 8).map(|x| x.1).next().unwrap_or("none");
                    Step::Fail(Violation::new(
                        &["C17"],
                        "K2",
                        format!("digest wrong at counter:{}:near {}", t.name, near),
                        format!("{}: {} blocks compressed + {} buffered (total {} bytes): implementation {} reference {}", t.name, w.blocks, w.buffered, total, crate::kit::json::hex(&got), crate::kit::json::hex(&want)),
                    ))
                } else {
                    stats.state(&[13, ty as u64, (w.buffered == 0) as u64, boundary_class(ty, w.blocks), w.jumped as u64]);
                    Step::Done
                }
            }
            _ => return Step::Skip,
        };
        w.steps += 1;
        // counter monitor: the counter equals the true amount after every step
        if let (Step::Done, Some(real)) = (&res, w.real.as_ref()) {
            let c = real.counter();
            let e = expected_counter(ty, w.blocks, w.buffered);
            if c != e {
                return Step::Fail(Violation::new(
                    &["C17"],
                    "K1",
                    format!("counter differs from the true amount:{}:after {}", t.name, op.name),
                    format!("{} after {}: counter {} but {} blocks compressed + {} buffered means {}", t.name, op.name, c, w.blocks, w.buffered, e),
                ));
            }
            stats.state(&[14, ty as u64, boundary_class(ty, w.blocks), (w.buffered == 0) as u64, w.jumped as u64, fnv_op(&op.name)]);
        }
        w.log = (w.log.rotate_left(7) ^ op.hash()).wrapping_mul(0x9e37_79b9_7f4a_7c15) ^ rh;
        res
    }
    fn finish(&self, w: &mut World, stats: &mut Stats) -> Step {
        if !w.done && w.real.is_some() {
            return self.step(w, &Op::new(0, "final", &[]), stats);
        }
        Step::Done
    }
    fn log_digest(&self, w: &World) -> u64 {
        w.log
    }
    fn shrink_setup(&self, setup: &J, ops: &[Op]) -> Vec<(J, Vec<Op>)> {
        if setup.u_or("host", 0) != 0 {
            vec![(setup.clone().set("host", J::U(0)), ops.to_vec())]
        } else {
            vec![]
        }
    }
    fn shrink_values(&self, _op: &Op, arg: &str, v: u128) -> Vec<u128> {
        let mut c: Vec<u128> = match arg {
            "dseed" | "boundary" => vec![0],
            "blocks" => {
                let mut c = vec![0u128, 1];
                for e in [8u32, 16, 22, 23, 24, 26, 32, 54, 55, 64] {
                    c.push((1u128 << e) - 1);
                    c.push(1u128 << e);
                }
                c
            }
            _ => vec![0, 1, 63, 64, 65, 127, 128, 129, v / 2],
        };
        c.retain(|x| *x < v);
        c
    }
}

fn fnv_op(s: &str) -> u64 {
    crate::kit::rng::fnv(s) & 0xff
}

/// index of the nearest boundary (within 8 blocks) + 1, or 0
fn boundary_class(ty: usize, blocks: u128) -> u64 {
    for (i, (bnd, _)) in boundaries(ty).iter().enumerate() {
        if blocks + 8 >= *bnd && blocks <= *bnd + 8 {
            let rel = if blocks < *bnd { 0 } else { 1 };
            return (i as u64 + 1) * 2 + rel;
        }
    }
    0
}
