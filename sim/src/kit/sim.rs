//! World/scenario driver: seeded runs, batches over worker threads, replay, minimisation.
use super::json::J;
use super::rng::{fnv, run_seed, Streams};
use std::collections::{BTreeMap, BTreeSet};
use std::panic::{catch_unwind, AssertUnwindSafe};

#[derive(Clone, Debug, PartialEq)]
pub struct Op {
    pub t: u32,
    pub name: String,
    pub args: Vec<(String, u128)>,
}

impl Op {
    pub fn new(t: u32, name: &str, args: &[(&str, u128)]) -> Op {
        Op { t, name: name.to_string(), args: args.iter().map(|(k, v)| (k.to_string(), *v)).collect() }
    }
    pub fn get(&self, k: &str) -> u128 {
        self.args.iter().find(|a| a.0 == k).map(|a| a.1).unwrap_or(0)
    }
    pub fn has(&self, k: &str) -> bool {
        self.args.iter().any(|a| a.0 == k)
    }
    pub fn to_json(&self) -> J {
        let mut o = J::obj().set("t", J::U(self.t as u128)).set("op", J::str(&self.name));
        for (k, v) in &self.args {
            o.put(k, J::U(*v));
        }
        o
    }
    pub fn from_json(j: &J) -> Option<Op> {
        let mut op = Op { t: j.u("t")? as u32, name: j.s("op")?.to_string(), args: vec![] };
        if let J::O(f) = j {
            for (k, v) in f {
                if k != "t" && k != "op" {
                    op.args.push((k.clone(), v.as_u128()?));
                }
            }
        }
        Some(op)
    }
    /// hash without the task id (per-instance transcripts must not depend on how instances are numbered)
    pub fn hash_nt(&self) -> u64 {
        let mut o = self.clone();
        o.t = 0;
        o.hash()
    }
    pub fn hash(&self) -> u64 {
        let mut h = fnv(&self.name) ^ (self.t as u64).wrapping_mul(0x9e37_79b9_7f4a_7c15);
        for (k, v) in &self.args {
            h = h.rotate_left(9) ^ fnv(k) ^ (*v as u64).wrapping_mul(0xff51_afd7_ed55_8ccd) ^ ((*v >> 64) as u64);
            h = h.wrapping_mul(0xc4ce_b9fe_1a85_ec53);
        }
        h
    }
}

/// print "RUN <index>" to stderr before every run (lets a memory checker's report be attributed to a run)
pub static PROGRESS: std::sync::atomic::AtomicBool = std::sync::atomic::AtomicBool::new(false);

/// set in a process that was started to judge one trace (so that it judges it itself)
pub static IN_CHILD: std::sync::atomic::AtomicBool = std::sync::atomic::AtomicBool::new(false);

/// what is executing right now, for a fault handler (relaxed; never read by a decision)
pub static CUR_RUN: std::sync::atomic::AtomicU64 = std::sync::atomic::AtomicU64::new(u64::MAX);
pub static CUR_OP: std::sync::atomic::AtomicU64 = std::sync::atomic::AtomicU64::new(u64::MAX);

pub fn hash_bytes(b: &[u8]) -> u64 {
    let mut h = 0x9e37_79b9_7f4a_7c15u64 ^ (b.len() as u64);
    for c in b.chunks(8) {
        let mut w = [0u8; 8];
        w[..c.len()].copy_from_slice(c);
        h = (h ^ u64::from_le_bytes(w)).wrapping_mul(0xff51_afd7_ed55_8ccd);
        h ^= h >> 29;
    }
    h
}

#[derive(Clone, Debug)]
pub struct Violation {
    /// properties this invariant decides
    pub props: Vec<String>,
    pub invariant: String,
    /// specific class of the failure, used to match known findings
    pub signature: String,
    pub detail: String,
}

impl Violation {
    pub fn new(props: &[&str], invariant: &str, signature: String, detail: String) -> Violation {
        Violation { props: props.iter().map(|s| s.to_string()).collect(), invariant: invariant.to_string(), signature, detail }
    }
    pub fn to_json(&self) -> J {
        J::obj()
            .set("properties", J::A(self.props.iter().map(|p| J::str(p)).collect()))
            .set("invariant", J::str(&self.invariant))
            .set("signature", J::str(&self.signature))
            .set("detail", J::str(&self.detail))
    }
}

pub enum Step {
    Done,
    /// operation not applicable in this state (only happens for edited / shrunk traces)
    Skip,
    Fail(Violation),
}

#[derive(Default, Clone)]
pub struct Stats {
    /// fault kinds that fired, probes that were hit, op kinds executed
    pub counters: BTreeMap<String, u64>,
    /// hashes of abstract (model-side) state tuples reached
    pub states: BTreeSet<u64>,
    /// observations that are not violations of any claimed invariant (e.g. consistent deviation from the spec model)
    pub notes: BTreeMap<String, u64>,
}

impl Stats {
    pub fn hit(&mut self, k: &str) {
        *self.counters.entry(k.to_string()).or_insert(0) += 1;
    }
    pub fn add(&mut self, k: &str, n: u64) {
        *self.counters.entry(k.to_string()).or_insert(0) += n;
    }
    pub fn note(&mut self, k: &str) {
        *self.notes.entry(k.to_string()).or_insert(0) += 1;
    }
    pub fn state(&mut self, parts: &[u64]) {
        let mut h = 0x1234_5678_9abc_def0u64;
        for p in parts {
            h = (h.rotate_left(13) ^ *p).wrapping_mul(0x9e37_79b9_7f4a_7c15);
        }
        self.states.insert(h);
    }
    pub fn merge(&mut self, o: &Stats) {
        for (k, v) in &o.counters {
            *self.counters.entry(k.clone()).or_insert(0) += v;
        }
        for (k, v) in &o.notes {
            *self.notes.entry(k.clone()).or_insert(0) += v;
        }
        for s in &o.states {
            self.states.insert(*s);
        }
    }
}

pub trait Scenario: Sync {
    type World;
    fn name(&self) -> &'static str;
    /// tasks, hosts and the swarm configuration of one run
    fn gen_setup(&self, mix: &str, st: &mut Streams) -> J;
    fn new_world(&self, setup: &J) -> Self::World;
    /// next operation, chosen from model-side state only; None ends the run
    fn gen_op(&self, w: &Self::World, mix: &str, st: &mut Streams) -> Option<Op>;
    /// execute against the real code and the model, evaluate invariants
    fn step(&self, w: &mut Self::World, op: &Op, stats: &mut Stats) -> Step;
    fn finish(&self, _w: &mut Self::World, _stats: &mut Stats) -> Step {
        Step::Done
    }
    /// digest of the event log (op, result) of the run so far
    fn log_digest(&self, w: &Self::World) -> u64;
    /// per-task (per-instance) event-log digests; a task's digest depends only on its own operations and results
    fn task_logs(&self, _w: &Self::World) -> Vec<u64> {
        vec![]
    }
    /// true if a trace must be judged in a brand-new process (scenarios about state shared between instances:
    /// thread-locals and statics polluted by earlier runs of the same worker would make a replay lie)
    fn judge_in_child(&self) -> bool {
        false
    }
    /// candidate smaller setups (with ops remapped) for minimisation
    fn shrink_setup(&self, _setup: &J, _ops: &[Op]) -> Vec<(J, Vec<Op>)> {
        vec![]
    }
    /// boundary values towards which numeric arguments are shrunk
    fn shrink_values(&self, _op: &Op, _arg: &str, v: u128) -> Vec<u128> {
        let mut c = vec![0, 1, 63, 64, 65, v / 2, v.saturating_sub(1), v.saturating_sub(64)];
        c.retain(|x| *x < v);
        c
    }
}

pub struct RunOutcome {
    pub setup: J,
    pub ops: Vec<Op>,
    pub violation: Option<(Violation, usize)>,
    pub digest: u64,
}

thread_local! {
    static LAST_PANIC: std::cell::RefCell<String> = std::cell::RefCell::new(String::new());
    static GUARD_DEPTH: std::cell::Cell<u32> = std::cell::Cell::new(0);
}

pub fn install_panic_hook() {
    std::panic::set_hook(Box::new(|info| {
        let msg = if let Some(s) = info.payload().downcast_ref::<&str>() {
            s.to_string()
        } else if let Some(s) = info.payload().downcast_ref::<String>() {
            s.clone()
        } else {
            "panic".to_string()
        };
        let loc = info.location().map(|l| format!("{}:{}", l.file(), l.line())).unwrap_or_default();
        // a panic outside `guarded` is a bug of the harness itself: say so loudly
        if GUARD_DEPTH.with(|d| d.get()) == 0 {
            eprintln!("HARNESS PANIC: {} at {}", msg, loc);
        }
        LAST_PANIC.with(|p| *p.borrow_mut() = format!("{} at {}", msg, loc));
    }));
}

/// run real code; a panic is returned as Err(message)
pub fn guarded<R>(f: impl FnOnce() -> R) -> Result<R, String> {
    GUARD_DEPTH.with(|d| d.set(d.get() + 1));
    let r = catch_unwind(AssertUnwindSafe(f));
    GUARD_DEPTH.with(|d| d.set(d.get() - 1));
    match r {
        Ok(r) => Ok(r),
        Err(_) => Err(LAST_PANIC.with(|p| p.borrow().clone())),
    }
}

pub fn run_generated<S: Scenario>(s: &S, mix: &str, seed: u64, max_ops: usize, stats: &mut Stats) -> RunOutcome {
    run_generated_at(s, mix, seed, 0, max_ops, stats)
}

pub fn run_generated_at<S: Scenario>(s: &S, mix: &str, seed: u64, run_index: u64, max_ops: usize, stats: &mut Stats) -> RunOutcome {
    if s.judge_in_child() {
        // scenarios about state shared between instances start every run on a fresh thread (cold thread-locals)
        return std::thread::scope(|sc| sc.spawn(|| run_generated_here(s, mix, seed, run_index, max_ops, stats)).join().expect("run thread"));
    }
    run_generated_here(s, mix, seed, run_index, max_ops, stats)
}

fn run_generated_here<S: Scenario>(s: &S, mix: &str, seed: u64, run_index: u64, max_ops: usize, stats: &mut Stats) -> RunOutcome {
    let mut st = Streams::new(seed);
    st.run_index = run_index;
    let setup = s.gen_setup(mix, &mut st);
    let mut w = s.new_world(&setup);
    let mut ops = Vec::new();
    let mut violation = None;
    while ops.len() < max_ops {
        let op = match s.gen_op(&w, mix, &mut st) {
            Some(op) => op,
            None => break,
        };
        let r = s.step(&mut w, &op, stats);
        ops.push(op);
        match r {
            Step::Fail(v) => {
                violation = Some((v, ops.len() - 1));
                break;
            }
            _ => {}
        }
    }
    if violation.is_none() {
        if let Step::Fail(v) = s.finish(&mut w, stats) {
            violation = Some((v, ops.len()));
        }
    }
    let digest = s.log_digest(&w) ^ (ops.len() as u64).wrapping_mul(0x2545_f491_4f6c_dd1d);
    RunOutcome { setup, ops, violation, digest }
}

/// execute an explicit trace and return (violation, event-log digest)
pub fn run_trace_digest<S: Scenario>(s: &S, setup: &J, ops: &[Op], stats: &mut Stats) -> (Option<(Violation, usize)>, u64) {
    let mut w = s.new_world(setup);
    for (i, op) in ops.iter().enumerate() {
        if let Step::Fail(v) = s.step(&mut w, op, stats) {
            return (Some((v, i)), s.log_digest(&w));
        }
    }
    if let Step::Fail(v) = s.finish(&mut w, stats) {
        return (Some((v, ops.len())), s.log_digest(&w));
    }
    (None, s.log_digest(&w))
}

/// judge a trace in a brand-new process (`simworker replay --file`)
pub fn run_trace_in_child<S: Scenario>(s: &S, setup: &J, ops: &[Op]) -> Option<(Violation, usize)> {
    use std::sync::atomic::{AtomicU64, Ordering};
    static N: AtomicU64 = AtomicU64::new(0);
    let exe = std::env::current_exe().ok()?;
    let dir = std::env::temp_dir();
    let path = dir.join(format!("simworker-cand-{}-{}.json", std::process::id(), N.fetch_add(1, Ordering::Relaxed)));
    let j = J::obj().set("scenario", J::str(s.name())).set("setup", setup.clone()).set("ops", J::A(ops.iter().map(|o| o.to_json()).collect()));
    std::fs::write(&path, j.to_string()).ok()?;
    let out = std::process::Command::new(exe).arg("replay").arg("--file").arg(&path).stderr(std::process::Stdio::null()).output();
    let _ = std::fs::remove_file(&path);
    let out = out.ok()?;
    let text = String::from_utf8_lossy(&out.stdout).to_string();
    let r = J::parse(text.trim().lines().last().unwrap_or("")).ok()?;
    if r.get("reproduced") != Some(&J::Bool(true)) {
        return None;
    }
    let v = r.get("violation")?;
    Some((
        Violation {
            props: v.arr("properties").iter().filter_map(|p| p.as_str().map(|s| s.to_string())).collect(),
            invariant: v.s("invariant").unwrap_or("").to_string(),
            signature: v.s("signature").unwrap_or("").to_string(),
            detail: v.s("detail").unwrap_or("").to_string(),
        },
        v.u_or("at_op", 0) as usize,
    ))
}

pub fn run_trace<S: Scenario>(s: &S, setup: &J, ops: &[Op], stats: &mut Stats) -> Option<(Violation, usize)> {
    if s.judge_in_child() && !IN_CHILD.load(std::sync::atomic::Ordering::Relaxed) {
        return run_trace_in_child(s, setup, ops);
    }
    let mut w = s.new_world(setup);
    for (i, op) in ops.iter().enumerate() {
        if let Step::Fail(v) = s.step(&mut w, op, stats) {
            return Some((v, i));
        }
    }
    if let Step::Fail(v) = s.finish(&mut w, stats) {
        return Some((v, ops.len()));
    }
    None
}

fn same_class(a: &Violation, b: &Violation) -> bool {
    a.invariant == b.invariant && a.props == b.props
}

/// ddmin over the operation list, then setup shrinking, then argument shrinking.
/// returns (setup, ops, violation, failing op index, reproduced from the explicit trace?)
pub fn minimise<S: Scenario>(s: &S, setup: &J, ops: &[Op], target: &Violation) -> (J, Vec<Op>, Violation, usize, bool) {
    // first in this process (fast); the result must also fail in a brand-new process - if it does not, the failure leaned
    // on what earlier runs left behind in this worker (statics, caches), and the minimisation is repeated with every
    // candidate judged in a child process; if not even the full trace fails alone, the replay is the batch prefix
    let first = minimise_with(s, setup, ops, target, s.judge_in_child());
    if s.judge_in_child() || !first.4 {
        return first;
    }
    match run_trace_in_child(s, &first.0, &first.1) {
        Some((v, _)) if same_class(&v, target) => first,
        _ => minimise_with(s, setup, ops, target, true),
    }
}

fn minimise_with<S: Scenario>(s: &S, setup: &J, ops: &[Op], target: &Violation, in_child: bool) -> (J, Vec<Op>, Violation, usize, bool) {
    let mut budget = if in_child { 300usize } else { 3000usize };
    let mut scratch = Stats::default();
    let mut cur_setup = setup.clone();
    let mut cur: Vec<Op> = ops.to_vec();
    let mut cur_v = target.clone();
    let mut cur_at = ops.len().saturating_sub(1);
    let mut try_candidate = |setup: &J, ops: &[Op], budget: &mut usize| -> Option<(Violation, usize)> {
        if *budget == 0 {
            return None;
        }
        *budget -= 1;
        let r = if in_child { run_trace_in_child(s, setup, ops) } else { run_trace(s, setup, ops, &mut scratch) };
        match r {
            Some((v, at)) if same_class(&v, target) => Some((v, at)),
            _ => None,
        }
    };
    // drop everything after the failing op first
    if let Some((v, at)) = try_candidate(&cur_setup, &cur, &mut budget) {
        cur.truncate((at + 1).min(cur.len()));
        cur_v = v;
        cur_at = at;
    } else {
        // not reproducible from the trace alone (it needed what earlier runs left behind in the process)
        return (cur_setup, cur, cur_v, cur_at, false);
    }
    let mut n = 2usize;
    while cur.len() >= 2 && budget > 0 {
        let chunk = (cur.len() + n - 1) / n;
        let mut reduced = false;
        let mut i = 0;
        while i < cur.len() {
            let mut cand = cur.clone();
            let end = (i + chunk).min(cand.len());
            cand.drain(i..end);
            if let Some((v, at)) = try_candidate(&cur_setup, &cand, &mut budget) {
                cand.truncate((at + 1).min(cand.len()));
                cur = cand;
                cur_v = v;
                cur_at = at;
                n = n.saturating_sub(1).max(2);
                reduced = true;
                break;
            }
            i += chunk;
        }
        if !reduced {
            if chunk <= 1 {
                break;
            }
            n = (n * 2).min(cur.len());
        }
    }
    // setup shrinking (fewer tasks / hosts)
    let mut progress = true;
    while progress && budget > 0 {
        progress = false;
        for (cs, cops) in s.shrink_setup(&cur_setup, &cur) {
            if let Some((v, at)) = try_candidate(&cs, &cops, &mut budget) {
                cur_setup = cs;
                cur = cops;
                cur.truncate((at + 1).min(cur.len()));
                cur_v = v;
                cur_at = at;
                progress = true;
                break;
            }
        }
    }
    // argument shrinking (the list may get shorter while we walk it: bounds are re-read every time)
    let mut progress = true;
    while progress && budget > 0 {
        progress = false;
        let mut i = 0;
        while i < cur.len() {
            let mut a = 0;
            while i < cur.len() && a < cur[i].args.len() {
                let (name, v) = cur[i].args[a].clone();
                for c in s.shrink_values(&cur[i], &name, v) {
                    let mut cand = cur.clone();
                    cand[i].args[a].1 = c;
                    if let Some((vv, at)) = try_candidate(&cur_setup, &cand, &mut budget) {
                        cand.truncate((at + 1).min(cand.len()));
                        cur = cand;
                        cur_v = vv;
                        cur_at = at;
                        progress = true;
                        break;
                    }
                }
                a += 1;
            }
            i += 1;
        }
    }
    (cur_setup, cur, cur_v, cur_at, true)
}

pub struct BatchCfg {
    pub mix: String,
    pub seed: u64,
    pub start: u64,
    pub runs: u64,
    pub threads: usize,
    pub max_ops: usize,
    pub max_seconds: u64,
    /// re-run one in `recheck_every` seeds and compare digests (0 = off)
    pub recheck_every: u64,
    pub keep_digests: bool,
}

pub struct Found {
    pub run_seed: u64,
    pub run_index: u64,
    pub setup: J,
    pub ops: Vec<Op>,
    pub violation: Violation,
    pub at_op: usize,
    pub minimised_from: usize,
    /// false: the explicit trace alone does not fail in a fresh process; the replay is the batch prefix
    pub from_trace: bool,
}

pub struct BatchResult {
    pub runs: u64,
    pub ops: u64,
    pub stats: Stats,
    pub digest_sum: u64,
    pub digests: Vec<(u64, u64)>,
    pub found: Vec<Found>,
    pub violating_runs: u64,
    pub nondeterministic: Vec<u64>,
    pub samples: Vec<J>,
    pub timed_out: bool,
}

pub fn trace_json(setup: &J, ops: &[Op]) -> J {
    J::obj().set("setup", setup.clone()).set("ops", J::A(ops.iter().map(|o| o.to_json()).collect()))
}

pub fn run_batch<S: Scenario>(s: &S, cfg: &BatchCfg) -> BatchResult {
    let t0 = std::time::Instant::now();
    let threads = cfg.threads.max(1);
    let mut parts: Vec<BatchResult> = Vec::new();
    std::thread::scope(|scope| {
        let mut hs = Vec::new();
        for tid in 0..threads {
            hs.push(scope.spawn(move || {
                let mut res = BatchResult {
                    runs: 0,
                    ops: 0,
                    stats: Stats::default(),
                    digest_sum: 0,
                    digests: vec![],
                    found: vec![],
                    violating_runs: 0,
                    nondeterministic: vec![],
                    samples: vec![],
                    timed_out: false,
                };
                let mut r = cfg.start + tid as u64;
                while r < cfg.start + cfg.runs {
                    if cfg.max_seconds > 0 && (r & 63) == 0 && t0.elapsed().as_secs() >= cfg.max_seconds {
                        res.timed_out = true;
                        break;
                    }
                    let seed = run_seed(cfg.seed, s.name().split('@').next().unwrap(), r);
                    if threads == 1 {
                        CUR_RUN.store(r, std::sync::atomic::Ordering::Relaxed);
                        if PROGRESS.load(std::sync::atomic::Ordering::Relaxed) {
                            eprintln!("RUN {}", r);
                        }
                    }
                    let out = run_generated_at(s, &cfg.mix, seed, r, cfg.max_ops, &mut res.stats);
                    res.runs += 1;
                    res.ops += out.ops.len() as u64;
                    res.digest_sum = res.digest_sum.wrapping_add(out.digest);
                    if cfg.keep_digests {
                        res.digests.push((r, out.digest));
                    }
                    if cfg.recheck_every > 0 && r % cfg.recheck_every == 0 {
                        let mut scratch = Stats::default();
                        let again = run_generated_at(s, &cfg.mix, seed, r, cfg.max_ops, &mut scratch);
                        if again.digest != out.digest {
                            res.nondeterministic.push(seed);
                        }
                    }
                    if r < cfg.start + 3 {
                        let n = out.ops.len().min(10);
                        res.samples.push(
                            trace_json(&out.setup, &out.ops[..n]).set("run_index", J::U(r as u128)).set("ops_total", J::U(out.ops.len() as u128)),
                        );
                    }
                    if let Some((v, at)) = out.violation {
                        res.violating_runs += 1;
                        // keep the first occurrence of each (invariant, signature) per thread
                        if res.found.len() < 6 && !res.found.iter().any(|f| f.violation.signature == v.signature && f.violation.invariant == v.invariant) {
                            res.found.push(Found {
                                run_seed: seed,
                                run_index: r,
                                minimised_from: out.ops.len(),
                                from_trace: true,
                                setup: out.setup,
                                ops: out.ops,
                                violation: v,
                                at_op: at,
                            });
                        }
                    }
                    r += threads as u64;
                }
                res
            }));
        }
        for h in hs {
            parts.push(h.join().expect("worker thread panicked (harness error)"));
        }
    });
    let mut total = BatchResult {
        runs: 0,
        ops: 0,
        stats: Stats::default(),
        digest_sum: 0,
        digests: vec![],
        found: vec![],
        violating_runs: 0,
        nondeterministic: vec![],
        samples: vec![],
        timed_out: false,
    };
    for p in parts {
        total.runs += p.runs;
        total.ops += p.ops;
        total.stats.merge(&p.stats);
        total.digest_sum = total.digest_sum.wrapping_add(p.digest_sum);
        total.digests.extend(p.digests);
        total.violating_runs += p.violating_runs;
        total.nondeterministic.extend(p.nondeterministic);
        total.samples.extend(p.samples);
        total.timed_out |= p.timed_out;
        for f in p.found {
            if !total.found.iter().any(|g: &Found| g.violation.signature == f.violation.signature && g.violation.invariant == f.violation.invariant) {
                total.found.push(f);
            }
        }
    }
    total.digests.sort();
    total.samples.sort_by_key(|s| s.u("run_index").unwrap_or(0));
    total.samples.truncate(3);
    total.found.sort_by_key(|f| f.run_index);
    total.found.truncate(8);
    // minimise what was found (sequentially; bounded budget each)
    for f in total.found.iter_mut() {
        let (setup, ops, v, at, from_trace) = minimise(s, &f.setup, &f.ops, &f.violation);
        f.from_trace = from_trace;
        f.setup = setup;
        f.ops = ops;
        f.violation = v;
        f.at_op = at;
    }
    total
}
