pub mod json;
pub mod rng;
pub mod sim;
