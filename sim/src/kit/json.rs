//! Minimal JSON value, writer and parser (no external crates; integers only, u128-safe).
use std::collections::BTreeMap;
use std::fmt::Write;

#[derive(Clone, Debug, PartialEq)]
pub enum J {
    Null,
    Bool(bool),
    /// non-negative integer; written as a number below 2^53 and as a decimal string above
    U(u128),
    /// negative integer
    I(i128),
    S(String),
    A(Vec<J>),
    O(Vec<(String, J)>),
}

impl J {
    pub fn obj() -> J {
        J::O(Vec::new())
    }
    pub fn set(mut self, k: &str, v: J) -> J {
        self.put(k, v);
        self
    }
    pub fn put(&mut self, k: &str, v: J) {
        if let J::O(f) = self {
            if let Some(e) = f.iter_mut().find(|e| e.0 == k) {
                e.1 = v;
            } else {
                f.push((k.to_string(), v));
            }
        }
    }
    pub fn get(&self, k: &str) -> Option<&J> {
        match self {
            J::O(f) => f.iter().find(|e| e.0 == k).map(|e| &e.1),
            _ => None,
        }
    }
    pub fn u(&self, k: &str) -> Option<u128> {
        self.get(k).and_then(|v| v.as_u128())
    }
    pub fn u_or(&self, k: &str, d: u128) -> u128 {
        self.u(k).unwrap_or(d)
    }
    pub fn s(&self, k: &str) -> Option<&str> {
        match self.get(k) {
            Some(J::S(s)) => Some(s),
            _ => None,
        }
    }
    pub fn arr(&self, k: &str) -> &[J] {
        match self.get(k) {
            Some(J::A(a)) => a,
            _ => &[],
        }
    }
    pub fn as_u128(&self) -> Option<u128> {
        match self {
            J::U(v) => Some(*v),
            J::S(s) => s.parse().ok(),
            J::Bool(b) => Some(*b as u128),
            _ => None,
        }
    }
    pub fn as_str(&self) -> Option<&str> {
        match self {
            J::S(s) => Some(s),
            _ => None,
        }
    }
    pub fn from_map(m: &BTreeMap<String, u64>) -> J {
        J::O(m.iter().map(|(k, v)| (k.clone(), J::U(*v as u128))).collect())
    }
    pub fn str(s: &str) -> J {
        J::S(s.to_string())
    }
    pub fn write(&self, out: &mut String) {
        match self {
            J::Null => out.push_str("null"),
            J::Bool(b) => out.push_str(if *b { "true" } else { "false" }),
            J::U(v) => {
                if *v < (1u128 << 53) {
                    let _ = write!(out, "{}", v);
                } else {
                    let _ = write!(out, "\"{}\"", v);
                }
            }
            J::I(v) => {
                let _ = write!(out, "{}", v);
            }
            J::S(s) => write_str(s, out),
            J::A(a) => {
                out.push('[');
                for (i, v) in a.iter().enumerate() {
                    if i > 0 {
                        out.push(',');
                    }
                    v.write(out);
                }
                out.push(']');
            }
            J::O(f) => {
                out.push('{');
                for (i, (k, v)) in f.iter().enumerate() {
                    if i > 0 {
                        out.push(',');
                    }
                    write_str(k, out);
                    out.push(':');
                    v.write(out);
                }
                out.push('}');
            }
        }
    }
    pub fn to_string(&self) -> String {
        let mut s = String::new();
        self.write(&mut s);
        s
    }
    pub fn parse(text: &str) -> Result<J, String> {
        let b = text.as_bytes();
        let mut p = 0usize;
        let v = parse_value(b, &mut p)?;
        skip_ws(b, &mut p);
        if p != b.len() {
            return Err(format!("trailing data at {}", p));
        }
        Ok(v)
    }
}

fn write_str(s: &str, out: &mut String) {
    out.push('"');
    for c in s.chars() {
        match c {
            '"' => out.push_str("\\\""),
            '\\' => out.push_str("\\\\"),
            '\n' => out.push_str("\\n"),
            '\r' => out.push_str("\\r"),
            '\t' => out.push_str("\\t"),
            c if (c as u32) < 0x20 => {
                let _ = write!(out, "\\u{:04x}", c as u32);
            }
            c => out.push(c),
        }
    }
    out.push('"');
}

fn skip_ws(b: &[u8], p: &mut usize) {
    while *p < b.len() && (b[*p] == b' ' || b[*p] == b'\n' || b[*p] == b'\r' || b[*p] == b'\t') {
        *p += 1;
    }
}

fn parse_value(b: &[u8], p: &mut usize) -> Result<J, String> {
    skip_ws(b, p);
    if *p >= b.len() {
        return Err("unexpected end".into());
    }
    match b[*p] {
        b'{' => {
            *p += 1;
            let mut f = Vec::new();
            skip_ws(b, p);
            if *p < b.len() && b[*p] == b'}' {
                *p += 1;
                return Ok(J::O(f));
            }
            loop {
                skip_ws(b, p);
                let k = parse_string(b, p)?;
                skip_ws(b, p);
                if *p >= b.len() || b[*p] != b':' {
                    return Err(format!("expected ':' at {}", p));
                }
                *p += 1;
                let v = parse_value(b, p)?;
                f.push((k, v));
                skip_ws(b, p);
                if *p < b.len() && b[*p] == b',' {
                    *p += 1;
                    continue;
                }
                if *p < b.len() && b[*p] == b'}' {
                    *p += 1;
                    return Ok(J::O(f));
                }
                return Err(format!("expected ',' or '}}' at {}", p));
            }
        }
        b'[' => {
            *p += 1;
            let mut a = Vec::new();
            skip_ws(b, p);
            if *p < b.len() && b[*p] == b']' {
                *p += 1;
                return Ok(J::A(a));
            }
            loop {
                let v = parse_value(b, p)?;
                a.push(v);
                skip_ws(b, p);
                if *p < b.len() && b[*p] == b',' {
                    *p += 1;
                    continue;
                }
                if *p < b.len() && b[*p] == b']' {
                    *p += 1;
                    return Ok(J::A(a));
                }
                return Err(format!("expected ',' or ']' at {}", p));
            }
        }
        b'"' => Ok(J::S(parse_string(b, p)?)),
        b't' if b[*p..].starts_with(b"true") => {
            *p += 4;
            Ok(J::Bool(true))
        }
        b'f' if b[*p..].starts_with(b"false") => {
            *p += 5;
            Ok(J::Bool(false))
        }
        b'n' if b[*p..].starts_with(b"null") => {
            *p += 4;
            Ok(J::Null)
        }
        c if c == b'-' || c.is_ascii_digit() => {
            let start = *p;
            *p += 1;
            while *p < b.len() && b[*p].is_ascii_digit() {
                *p += 1;
            }
            if *p < b.len() && (b[*p] == b'.' || b[*p] == b'e' || b[*p] == b'E') {
                // floats are not produced by the worker; accept and truncate
                while *p < b.len() && (b[*p].is_ascii_digit() || b"+-.eE".contains(&b[*p])) {
                    *p += 1;
                }
                let t = std::str::from_utf8(&b[start..*p]).unwrap();
                let f: f64 = t.parse().map_err(|_| format!("bad number {}", t))?;
                return Ok(if f < 0.0 { J::I(f as i128) } else { J::U(f as u128) });
            }
            let t = std::str::from_utf8(&b[start..*p]).unwrap();
            if c == b'-' {
                Ok(J::I(t.parse().map_err(|_| format!("bad number {}", t))?))
            } else {
                Ok(J::U(t.parse().map_err(|_| format!("bad number {}", t))?))
            }
        }
        c => Err(format!("unexpected byte {:?} at {}", c as char, p)),
    }
}

fn parse_string(b: &[u8], p: &mut usize) -> Result<String, String> {
    if *p >= b.len() || b[*p] != b'"' {
        return Err(format!("expected string at {}", p));
    }
    *p += 1;
    let mut out = Vec::new();
    while *p < b.len() {
        match b[*p] {
            b'"' => {
                *p += 1;
                return String::from_utf8(out).map_err(|e| e.to_string());
            }
            b'\\' => {
                *p += 1;
                if *p >= b.len() {
                    break;
                }
                match b[*p] {
                    b'n' => out.push(b'\n'),
                    b'r' => out.push(b'\r'),
                    b't' => out.push(b'\t'),
                    b'b' => out.push(8),
                    b'f' => out.push(12),
                    b'u' => {
                        let h = std::str::from_utf8(&b[*p + 1..*p + 5]).map_err(|e| e.to_string())?;
                        let cp = u32::from_str_radix(h, 16).map_err(|e| e.to_string())?;
                        let ch = char::from_u32(cp).unwrap_or('?');
                        let mut buf = [0u8; 4];
                        out.extend_from_slice(ch.encode_utf8(&mut buf).as_bytes());
                        *p += 4;
                    }
                    c => out.push(c),
                }
                *p += 1;
            }
            c => {
                out.push(c);
                *p += 1;
            }
        }
    }
    Err("unterminated string".into())
}

pub fn hex(b: &[u8]) -> String {
    let mut s = String::with_capacity(b.len() * 2);
    for x in b {
        let _ = write!(s, "{:02x}", x);
    }
    s
}

pub fn unhex(s: &str) -> Vec<u8> {
    let s: Vec<u8> = s.bytes().filter(|c| c.is_ascii_hexdigit()).collect();
    s.chunks(2)
        .map(|c| u8::from_str_radix(std::str::from_utf8(c).unwrap(), 16).unwrap())
        .collect()
}
