//! One integer decides everything: SplitMix64-seeded xoshiro256**, with labelled sub-streams.

#[derive(Clone, Debug)]
pub struct Rng {
    s: [u64; 4],
}

pub fn splitmix(x: &mut u64) -> u64 {
    *x = x.wrapping_add(0x9e37_79b9_7f4a_7c15);
    let mut z = *x;
    z = (z ^ (z >> 30)).wrapping_mul(0xbf58_476d_1ce4_e5b9);
    z = (z ^ (z >> 27)).wrapping_mul(0x94d0_49bb_1331_11eb);
    z ^ (z >> 31)
}

pub fn fnv(label: &str) -> u64 {
    let mut h = 0xcbf2_9ce4_8422_2325u64;
    for b in label.bytes() {
        h ^= b as u64;
        h = h.wrapping_mul(0x1000_0000_01b3);
    }
    h
}

/// seed of run `r` of scenario `scenario` under VERIF_SEED `seed`
pub fn run_seed(seed: u64, scenario: &str, r: u64) -> u64 {
    let mut x = seed ^ fnv(scenario).rotate_left(17);
    let a = splitmix(&mut x);
    let mut y = a ^ r.wrapping_mul(0xd134_2543_de82_ef95);
    splitmix(&mut y)
}

impl Rng {
    pub fn new(seed: u64) -> Rng {
        let mut x = seed;
        let s = [splitmix(&mut x), splitmix(&mut x), splitmix(&mut x), splitmix(&mut x)];
        Rng { s }
    }
    /// labelled sub-stream; does not advance `self`
    pub fn fork(&self, label: &str) -> Rng {
        Rng::new(self.s[0] ^ self.s[2].rotate_left(29) ^ fnv(label))
    }
    pub fn next(&mut self) -> u64 {
        let r = self.s[1].wrapping_mul(5).rotate_left(7).wrapping_mul(9);
        let t = self.s[1] << 17;
        self.s[2] ^= self.s[0];
        self.s[3] ^= self.s[1];
        self.s[1] ^= self.s[2];
        self.s[0] ^= self.s[3];
        self.s[2] ^= t;
        self.s[3] = self.s[3].rotate_left(45);
        r
    }
    /// uniform in 0..n (n > 0)
    pub fn below(&mut self, n: u64) -> u64 {
        debug_assert!(n > 0);
        ((self.next() as u128 * n as u128) >> 64) as u64
    }
    /// uniform in lo..=hi
    pub fn range(&mut self, lo: u64, hi: u64) -> u64 {
        if hi <= lo {
            return lo;
        }
        let span = hi - lo;
        if span == u64::MAX {
            return self.next();
        }
        lo + self.below(span + 1)
    }
    pub fn chance(&mut self, num: u64, den: u64) -> bool {
        self.below(den) < num
    }
    pub fn pick<'a, T>(&mut self, xs: &'a [T]) -> &'a T {
        &xs[self.below(xs.len() as u64) as usize]
    }
    pub fn fill(&mut self, out: &mut [u8]) {
        for c in out.chunks_mut(8) {
            let v = self.next().to_le_bytes();
            c.copy_from_slice(&v[..c.len()]);
        }
    }
    pub fn bytes(&mut self, n: usize) -> Vec<u8> {
        let mut v = vec![0u8; n];
        self.fill(&mut v);
        v
    }
    pub fn u128(&mut self) -> u128 {
        ((self.next() as u128) << 64) | self.next() as u128
    }
    /// `n` bytes made of little-endian 32-bit words, each drawn from the boundary values of a machine word or at random:
    /// a key, nonce or counter word that shares a register lane with something else is compared, added to or carried into
    /// somewhere, and small / all-ones / sign-boundary words are where that goes wrong
    pub fn boundary_words(&mut self, n: usize) -> Vec<u8> {
        const EDGE: [u32; 8] = [0, 1, 2, 3, 0x7fff_ffff, 0x8000_0000, 0xffff_fffe, 0xffff_ffff];
        let mut v = Vec::with_capacity(n + 4);
        while v.len() < n {
            let w = if self.below(3) == 0 { self.next() as u32 } else { EDGE[self.below(8) as usize] };
            v.extend_from_slice(&w.to_le_bytes());
        }
        v.truncate(n);
        v
    }
}

/// The sub-streams of one run. Adding a draw to one stream never shifts another.
pub struct Streams {
    pub seed: u64,
    /// index of this run in its batch (used only by enumerating mixes)
    pub run_index: u64,
    pub ops: Rng,
    pub sched: Rng,
    pub data: Rng,
    pub place: Rng,
    pub swarm: Rng,
}

impl Streams {
    pub fn new(run_seed: u64) -> Streams {
        let root = Rng::new(run_seed);
        Streams {
            seed: run_seed,
            run_index: 0,
            ops: root.fork("ops"),
            sched: root.fork("sched"),
            data: root.fork("data"),
            place: root.fork("place"),
            swarm: root.fork("swarm"),
        }
    }
}

/// deterministic data pattern of an operation: explicit in the trace as (dseed, len)
pub fn pattern(dseed: u64, len: usize) -> Vec<u8> {
    match dseed & 3 {
        0 => vec![0u8; len],
        1 => (0..len).map(|i| (i as u64).wrapping_add(dseed >> 2) as u8).collect(),
        _ => Rng::new(dseed).bytes(len),
    }
}
