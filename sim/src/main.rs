//! simworker: deterministic-simulation worker. One binary, all scenarios.
//!   simworker run --scenario S --mix M --seed N --runs R [--start K] [--threads T] [--max-ops K]
//!                 [--profile P] [--host-build H] [--replay-dir D] [--max-seconds S] [--digests F]
//!   simworker replay --file F
//!   simworker selftest
#![allow(clippy::all)]
mod hosts;
mod kit;
mod refm;
mod scen;

/// generate without executing the real code (used to dump the trace of a run that crashes the process)
pub static DRY: std::sync::atomic::AtomicBool = std::sync::atomic::AtomicBool::new(false);

use kit::json::J;
use kit::sim::{run_batch, BatchCfg, Op, Scenario, Stats};
use std::collections::BTreeMap;

fn arg<'a>(args: &'a BTreeMap<String, String>, k: &str, d: &'a str) -> &'a str {
    args.get(k).map(|s| s.as_str()).unwrap_or(d)
}

fn meta(args: &BTreeMap<String, String>) -> J {
    J::obj()
        .set("profile", J::str(arg(args, "profile", "unknown")))
        .set("host_build", J::str(arg(args, "host-build", "std")))
        .set("debug_assertions", J::Bool(cfg!(debug_assertions)))
        .set("max_host_level", J::U(hosts::max_level() as u128))
}

fn do_run<S: Scenario>(s: &S, args: &BTreeMap<String, String>) -> i32 {
    let cfg = BatchCfg {
        mix: arg(args, "mix", "").to_string(),
        seed: arg(args, "seed", "1").parse().expect("--seed"),
        start: arg(args, "start", "0").parse().expect("--start"),
        runs: arg(args, "runs", "1000").parse().expect("--runs"),
        threads: arg(args, "threads", "16").parse().expect("--threads"),
        max_ops: arg(args, "max-ops", "48").parse().expect("--max-ops"),
        max_seconds: arg(args, "max-seconds", "0").parse().expect("--max-seconds"),
        recheck_every: arg(args, "recheck-every", "100").parse().expect("--recheck-every"),
        keep_digests: args.contains_key("digests"),
    };
    if args.contains_key("progress") {
        kit::sim::PROGRESS.store(true, std::sync::atomic::Ordering::Relaxed);
    }
    let t0 = std::time::Instant::now();
    let res = run_batch(s, &cfg);
    let wall_ms = t0.elapsed().as_millis();
    let replay_dir = arg(args, "replay-dir", "");
    let mut found = Vec::new();
    for f in &res.found {
        let mut j = J::obj()
            .set("scenario", J::str(s.name()))
            .set("mix", J::str(&cfg.mix))
            .set("meta", meta(args))
            .set("verif_seed", J::U(cfg.seed as u128))
            .set("run_index", J::U(f.run_index as u128))
            .set("run_seed", J::U(f.run_seed as u128))
            .set("setup", f.setup.clone())
            .set("ops", J::A(f.ops.iter().map(|o| o.to_json()).collect()))
            .set("violation", f.violation.to_json().set("at_op", J::U(f.at_op as u128)))
            .set("minimised_from", J::U(f.minimised_from as u128));
        if let Some(l) = args.get("groestl-level") {
            j.put("worker_args", J::A(vec![J::str("--groestl-level"), J::str(l)]));
        }
        if !f.from_trace {
            // the failure needs what earlier runs of this batch left behind in the process: replay = the batch prefix
            j.put("kind", J::str("batch"));
            j.put("batch", J::obj().set("start", J::U(cfg.start as u128)).set("runs", J::U((f.run_index + 1 - cfg.start) as u128)).set("max_ops", J::U(cfg.max_ops as u128)));
        }
        if !replay_dir.is_empty() {
            let _ = std::fs::create_dir_all(replay_dir);
            let text = j.to_string();
            let path = format!(
                "{}/{}-{}-{}-{:08x}.json",
                replay_dir,
                f.violation.props.first().cloned().unwrap_or("X".into()),
                s.name(),
                arg(args, "profile", "p"),
                kit::rng::fnv(&text) as u32
            );
            std::fs::write(&path, text + "\n").expect("write replay file");
            j.put("replay", J::S(path));
        }
        found.push(j);
    }
    if let Some(path) = args.get("digests") {
        let mut s = String::new();
        for (r, d) in &res.digests {
            s.push_str(&format!("{} {:016x}\n", r, d));
        }
        std::fs::write(path, s).expect("write digests");
    }
    let mut hostc = J::obj();
    for (k, v) in hosts::dispatch_counts() {
        hostc.put(&k, J::U(v as u128));
    }
    let out = J::obj()
        .set("scenario", J::str(s.name()))
        .set("mix", J::str(&cfg.mix))
        .set("meta", meta(args))
        .set("seed", J::U(cfg.seed as u128))
        .set("runs", J::U(res.runs as u128))
        .set("ops", J::U(res.ops as u128))
        .set("wall_ms", J::U(wall_ms))
        .set("digest_sum", J::S(format!("{:016x}", res.digest_sum)))
        .set("distinct_states", J::U(res.stats.states.len() as u128))
        .set("counters", J::from_map(&res.stats.counters))
        .set("notes", J::from_map(&res.stats.notes))
        .set("dispatches_by_host_level", hostc)
        .set("violating_runs", J::U(res.violating_runs as u128))
        .set("nondeterministic_seeds", J::A(res.nondeterministic.iter().map(|s| J::U(*s as u128)).collect()))
        .set("timed_out", J::Bool(res.timed_out))
        .set("samples", J::A(res.samples.clone()))
        .set("found", J::A(found));
    let out = if args.contains_key("states") && res.stats.states.len() <= 200_000 {
        out.set("state_hashes", J::A(res.stats.states.iter().map(|h| J::S(format!("{:x}", h))).collect()))
    } else {
        out
    };
    println!("{}", out.to_string());
    if !res.nondeterministic.is_empty() {
        return 2;
    }
    if res.violating_runs > 0 {
        return 1;
    }
    0
}

/// print the generated trace of one run (setup + ops) without judging it
fn do_trace<S: Scenario>(s: &S, args: &BTreeMap<String, String>) -> i32 {
    let seed: u64 = arg(args, "seed", "1").parse().expect("--seed");
    let r: u64 = arg(args, "start", "0").parse().expect("--start");
    let max_ops: usize = arg(args, "max-ops", "48").parse().expect("--max-ops");
    let rs = kit::rng::run_seed(seed, s.name().split('@').next().unwrap(), r);
    let mut stats = Stats::default();
    if args.contains_key("dry") {
        DRY.store(true, std::sync::atomic::Ordering::Relaxed);
    }
    let out = kit::sim::run_generated_at(s, arg(args, "mix", ""), rs, r, max_ops, &mut stats);
    let j = J::obj()
        .set("scenario", J::str(s.name()))
        .set("mix", J::str(arg(args, "mix", "")))
        .set("meta", meta(args))
        .set("verif_seed", J::U(seed as u128))
        .set("run_index", J::U(r as u128))
        .set("run_seed", J::U(rs as u128))
        .set("setup", out.setup.clone())
        .set("ops", J::A(out.ops.iter().map(|o| o.to_json()).collect()))
        .set("digest", J::S(format!("{:016x}", out.digest)));
    println!("{}", j.to_string());
    0
}

fn do_replay<S: Scenario>(s: &S, j: &J) -> i32 {
    let setup = j.get("setup").cloned().unwrap_or(J::obj());
    let ops: Vec<Op> = j.arr("ops").iter().filter_map(Op::from_json).collect();
    let mut stats = Stats::default();
    let (v, digest) = kit::sim::run_trace_digest(s, &setup, &ops, &mut stats);
    let d = J::S(format!("{:016x}", digest));
    match v {
        Some((v, at)) => {
            println!("{}", J::obj().set("reproduced", J::Bool(true)).set("digest", d).set("violation", v.to_json().set("at_op", J::U(at as u128))).to_string());
            1
        }
        None => {
            println!("{}", J::obj().set("reproduced", J::Bool(false)).set("digest", d).to_string());
            0
        }
    }
}

macro_rules! scenarios {
    ($name:expr, $f:ident, $($arg:expr),*) => {
        match $name {
            "chacha_stream" => $f(&scen::s1_chacha_stream::S1, $($arg),*),
            "chacha_block" => $f(&scen::s2_chacha_block::S2, $($arg),*),
            "hash_stream" => $f(&scen::s4_hash_stream::S4, $($arg),*),
            "mem" => $f(&scen::s5_mem::S5, $($arg),*),
            "counters" => $f(&scen::s6_counters::S6, $($arg),*),
            "interleave" => $f(&scen::s7_interleave::S7, $($arg),*),
            "vecops" => $f(&scen::s8_vecops::S8, $($arg),*),
            "chacha_stream@hosts" => $f(&scen::s3_hosts::Hosts { inner: scen::s1_chacha_stream::S1, name: "chacha_stream@hosts" }, $($arg),*),
            "chacha_block@hosts" => $f(&scen::s3_hosts::Hosts { inner: scen::s2_chacha_block::S2, name: "chacha_block@hosts" }, $($arg),*),
            "hash_stream@hosts" => $f(&scen::s3_hosts::Hosts { inner: scen::s4_hash_stream::S4, name: "hash_stream@hosts" }, $($arg),*),
            other => {
                eprintln!("unknown scenario {}", other);
                2
            }
        }
    };
}

fn main() {
    let argv: Vec<String> = std::env::args().collect();
    if argv.len() < 2 {
        eprintln!("usage: simworker run|replay|selftest ...");
        std::process::exit(2);
    }
    let mut args = BTreeMap::new();
    let mut i = 2;
    while i < argv.len() {
        if let Some(k) = argv[i].strip_prefix("--") {
            if i + 1 < argv.len() && !argv[i + 1].starts_with("--") {
                args.insert(k.to_string(), argv[i + 1].clone());
                i += 2;
            } else {
                args.insert(k.to_string(), "1".to_string());
                i += 1;
            }
        } else {
            i += 1;
        }
    }
    kit::sim::install_panic_hook();
    hosts::install();
    // hook H3: Groestl's one-time detection result for this process (a simulated host; must be set before any hash)
    #[cfg(cryptocorrosion_verif)]
    if let Some(l) = args.get("groestl-level").and_then(|s| s.parse::<u8>().ok()) {
        groestl_aesni::verif::set_level(l);
    }
    scen::arena::install_fault_handler();
    let code = match argv[1].as_str() {
        "selftest" => match selftest(arg(&args, "repo", "/repo")) {
            Ok(n) => {
                println!("{}", J::obj().set("selftest", J::str("ok")).set("vectors", J::U(n as u128)).to_string());
                0
            }
            Err(e) => {
                eprintln!("SELFTEST FAILED: {}", e);
                2
            }
        },
        "run" => {
            let name = arg(&args, "scenario", "").to_string();
            scenarios!(name.as_str(), do_run, &args)
        }
        "isolate" => {
            let mut text = String::new();
            std::io::Read::read_to_string(&mut std::io::stdin(), &mut text).expect("stdin");
            let req = J::parse(&text).expect("parse isolate request");
            println!("{}", scen::s7_interleave::isolate_child(&req).to_string());
            0
        }
        "stream" => do_stream(&args),
        "huge" => do_huge(&args),
        "info" => {
            let ks = scen::s5_mem::kinds();
            println!("{}", J::obj().set("mem_kinds", J::U(ks.len() as u128)).set("mem_enum_combos", J::U(scen::s5_mem::combos(&ks).len() as u128)).set("max_host_level", J::U(hosts::max_level() as u128)).to_string());
            0
        }
        "trace" => {
            let name = arg(&args, "scenario", "").to_string();
            scenarios!(name.as_str(), do_trace, &args)
        }
        "replay" => {
            kit::sim::IN_CHILD.store(true, std::sync::atomic::Ordering::Relaxed);
            let text = std::fs::read_to_string(arg(&args, "file", "")).expect("read replay file");
            let j = J::parse(&text).expect("parse replay file");
            let name = j.s("scenario").unwrap_or("").to_string();
            scenarios!(name.as_str(), do_replay, &j)
        }
        _ => 2,
    };
    std::process::exit(code);
}

fn selftest(repo: &str) -> Result<u32, String> {
    let mut n = 0;
    n += refm::chacha::selftest()?;
    n += refm::selftest_hashes(repo)?;
    Ok(n)
}

/// Cross a counter boundary for real (no hook involved in reaching it): stream patterned data through the
/// implementation and the reference in lock-step, compare digests of clones taken around the boundary.
fn do_stream(args: &BTreeMap<String, String>) -> i32 {
    use scen::hashes::{new_hash, type_index, TYPES};
    use scen::s6_counters::Ref;
    let name = arg(args, "type", "Blake256");
    let ty = type_index(name).expect("--type");
    let boundary: u128 = arg(args, "boundary-bytes", "536870912").parse().expect("--boundary-bytes");
    let seed: u64 = arg(args, "seed", "1").parse().expect("--seed");
    let with_ref = !args.contains_key("no-ref");
    if args.contains_key("oneshot") {
        return do_stream_oneshot(ty, name, boundary, seed);
    }
    let b = TYPES[ty].block as u128;
    let mut rng = kit::rng::Rng::new(seed ^ kit::rng::fnv(name));
    let mut real = new_hash(ty);
    let mut reference = Ref::new(ty);
    let t0 = std::time::Instant::now();
    // stop 1..3 blocks + a partial block short of the boundary
    let short = b * rng.range(1, 3) as u128 + rng.range(1, b as u64 - 1) as u128;
    let mut remaining = boundary - short;
    let chunk = 1usize << 20;
    let mut buf = vec![0u8; chunk];
    let mut absorbed: u128 = 0;
    let mut checks = Vec::new();
    let mut bad = Vec::new();
    while remaining > 0 {
        let n = (remaining.min(chunk as u128)) as usize;
        // cheap deterministic pattern per chunk (content is not the point; the counter is)
        let tag = rng.next();
        for (i, c) in buf[..n].chunks_mut(8).enumerate() {
            let v = (tag ^ (i as u64).wrapping_mul(0x9e37_79b9_7f4a_7c15)).to_le_bytes();
            c.copy_from_slice(&v[..c.len()]);
        }
        real.update(&buf[..n]);
        if with_ref {
            reference.update(&buf[..n]);
        }
        absorbed += n as u128;
        remaining -= n as u128;
    }
    // now walk across the boundary in small pieces, finalising clones on the way
    let mut monitor_bad = 0;
    for step in 0..8 {
        let n = if step == 0 { 0 } else { rng.range(1, (b as u64) + 7) as usize };
        let piece = rng.bytes(n);
        real.update(&piece);
        if with_ref {
            reference.update(&piece);
        }
        absorbed += n as u128;
        let d = real.clone_box().finalize_box();
        let ok = if with_ref { reference.clone().finalize() == d } else { true };
        // counter monitor through the (passive) accessor
        let f = TYPES[ty].family;
        let (blocks, buffered) = match f {
            scen::hashes::Family::Skein => {
                if absorbed == 0 { (0, 0) } else { let n = (absorbed - 1) / b; (n, absorbed - n * b) }
            }
            _ => (absorbed / b, absorbed % b),
        };
        let expect = match f {
            scen::hashes::Family::Blake => blocks * b * 8,
            scen::hashes::Family::Groestl => blocks,
            scen::hashes::Family::Jh => absorbed,
            scen::hashes::Family::Skein => blocks * b,
        };
        let _ = buffered;
        let cnt = real.counter();
        if cfg!(cryptocorrosion_verif) && cnt != expect {
            monitor_bad += 1;
        }
        checks.push(J::obj().set("absorbed", J::U(absorbed)).set("digest_ok", J::Bool(ok)).set("counter", J::U(cnt)).set("expected_counter", J::U(expect)));
        if !ok {
            bad.push(absorbed);
        }
    }
    let out = J::obj()
        .set("type", J::str(name))
        .set("boundary_bytes", J::U(boundary))
        .set("absorbed", J::U(absorbed))
        .set("with_reference", J::Bool(with_ref))
        .set("checks", J::A(checks))
        .set("digest_mismatches", J::U(bad.len() as u128))
        .set("counter_mismatches", J::U(monitor_bad as u128))
        .set("wall_ms", J::U(t0.elapsed().as_millis()));
    println!("{}", out.to_string());
    if !bad.is_empty() || monitor_bad > 0 {
        1
    } else {
        0
    }
}

/// The whole message (boundary + a little) in ONE update call versus the same bytes streamed in odd-sized
/// pieces: a single call whose length alone exceeds a counter word must still count correctly.
fn do_stream_oneshot(ty: usize, name: &str, boundary: u128, seed: u64) -> i32 {
    use scen::hashes::{new_hash, TYPES};
    let t0 = std::time::Instant::now();
    let b = TYPES[ty].block;
    let mut rng = kit::rng::Rng::new(seed ^ kit::rng::fnv(name) ^ 0x0e5);
    let total = boundary as usize + b * rng.range(1, 3) as usize + rng.range(1, b as u64 - 1) as usize;
    let mut msg = vec![0u8; total];
    let tag = rng.next();
    for (i, c) in msg.chunks_mut(8).enumerate() {
        let v = (tag ^ (i as u64).wrapping_mul(0x9e37_79b9_7f4a_7c15)).to_le_bytes();
        c.copy_from_slice(&v[..c.len()]);
    }
    let mut one = new_hash(ty);
    one.update(&msg);
    let d1 = one.finalize_box();
    let d_digest = scen::hashes::oneshot(ty, &msg);
    let mut many = new_hash(ty);
    let piece = (1usize << 20) - 3;
    for c in msg.chunks(piece) {
        many.update(c);
    }
    let d2 = many.finalize_box();
    let ok = d1 == d2 && d_digest == d2;
    let out = J::obj()
        .set("type", J::str(name))
        .set("boundary_bytes", J::U(boundary))
        .set("absorbed", J::U(total as u128))
        .set("with_reference", J::Bool(false))
        .set("checks", J::A(vec![J::obj().set("absorbed", J::U(total as u128)).set("digest_ok", J::Bool(ok)).set("mode", J::str("one update call / Digest::digest vs 1 MiB-3 pieces"))]))
        .set("digest_mismatches", J::U(!ok as u128))
        .set("counter_mismatches", J::U(0))
        .set("wall_ms", J::U(t0.elapsed().as_millis()));
    println!("{}", out.to_string());
    if ok {
        0
    } else {
        1
    }
}

/// One call with a HUGE slice (2 GiB / 4 GiB and a bit): lengths no sweep can afford, so they get their own
/// operation. The slice is anonymous zero memory that ends at an unmapped page; the result is compared with the
/// same bytes processed in 1 MiB pieces by a twin instance.
///   huge --what hash:<Type>|cipher:<Kind> --len N [--pre H]
fn do_huge(args: &BTreeMap<String, String>) -> i32 {
    use scen::hashes::{new_hash, type_index};
    extern "C" {
        fn mmap(addr: *mut u8, len: usize, prot: i32, flags: i32, fd: i32, off: i64) -> *mut u8;
        fn mprotect(addr: *mut u8, len: usize, prot: i32) -> i32;
    }
    let what = arg(args, "what", "hash:Groestl256").to_string();
    let len: usize = arg(args, "len", "2147483729").parse().expect("--len");
    let pre: usize = arg(args, "pre", "0").parse().expect("--pre");
    let t0 = std::time::Instant::now();
    let page = 4096usize;
    let maplen = if what.starts_with("rounds:") || what.starts_with("alias:") || what.starts_with("accept:") { page } else { len };
    let total = (maplen + page - 1) / page * page + 2 * page;
    // PROT_NONE everywhere, then the data part readable/writable: the slice ends exactly at the trailing guard page
    let base = unsafe { mmap(std::ptr::null_mut(), total, 0, 0x22 | 0x4000, -1, 0) };
    assert!(!base.is_null() && base as isize != -1, "mmap of {} bytes failed", total);
    let data_pages = total - 2 * page;
    assert_eq!(unsafe { mprotect(base.add(page), data_pages, 3) }, 0);
    let start = unsafe { base.add(page + data_pages - maplen) };
    scen::arena::CUR_RUN.store(0, std::sync::atomic::Ordering::Relaxed);
    scen::arena::CUR_OP.store(0, std::sync::atomic::Ordering::Relaxed);
    let ok;
    let mut detail = String::new();
    if let Some(tyname) = what.strip_prefix("hash:") {
        let ty = type_index(tyname).expect("hash type");
        let slice = unsafe { std::slice::from_raw_parts(start, len) };
        // input only: read-only pages
        assert_eq!(unsafe { mprotect(base.add(page), data_pages, 1) }, 0);
        let prefix = vec![0x5au8; pre];
        // the one call and the pieces on two threads (two independent instances)
        let (d1, d2) = std::thread::scope(|sc| {
            let prefix = &prefix;
            let h1 = sc.spawn(move || {
                let mut one = new_hash(ty);
                one.update(prefix);
                one.update(slice);
                one.finalize_box()
            });
            let h2 = sc.spawn(move || {
                let mut many = new_hash(ty);
                many.update(prefix);
                let zeros = vec![0u8; (1 << 20) - 3];
                let mut left = len;
                while left > 0 {
                    let n = left.min(zeros.len());
                    many.update(&zeros[..n]);
                    left -= n;
                }
                many.finalize_box()
            });
            (h1.join().expect("one-call thread"), h2.join().expect("pieces thread"))
        });
        ok = d1 == d2;
        if !ok {
            detail = format!("one call {} vs pieces {}", kit::json::hex(&d1), kit::json::hex(&d2));
        }
    } else if let Some(kname) = what.strip_prefix("cipher:") {
        use scen::s1_chacha_stream::Real;
        let kind = refm::chacha::Kind::from_name(kname).expect("cipher kind");
        let key = [0x42u8; 32];
        let nonce = vec![7u8; kind.nonce_len()];
        let slice = unsafe { std::slice::from_raw_parts_mut(start, len) };
        let mut a = Real::new(kind, &key, &nonce);
        let mut b = Real::new(kind, &key, &nonce);
        let mut p1 = vec![0u8; pre];
        let mut p2 = vec![0u8; pre];
        a.apply(&mut p1);
        b.apply(&mut p2);
        a.apply(slice);
        // twin: the same keystream in 1 MiB - 3 pieces, compared piece by piece
        let mut piece = vec![0u8; (1 << 20) - 3];
        let mut off = 0usize;
        let mut bad: Option<usize> = None;
        while off < len {
            let n = (len - off).min(piece.len());
            for x in piece[..n].iter_mut() {
                *x = 0;
            }
            b.apply(&mut piece[..n]);
            if bad.is_none() && piece[..n] != slice[off..off + n] {
                bad = Some(off + piece[..n].iter().zip(&slice[off..off + n]).position(|(x, y)| x != y).unwrap());
            }
            off += n;
        }
        let mut t1 = [0u8; 70];
        let mut t2 = [0u8; 70];
        a.apply(&mut t1);
        b.apply(&mut t2);
        ok = bad.is_none() && t1 == t2;
        if !ok {
            detail = format!("first differing byte {:?}; following keystream equal: {}", bad, t1 == t2);
        }
    } else if let Some(kname) = what.strip_prefix("exhaust:") {
        // a request longer than everything that is left must be refused at once, without touching the data:
        // the slice is a MAP_NORESERVE mapping of untouched zero pages; the driver's watchdog catches an acceptance
        use scen::s1_chacha_stream::Real;
        let kind = refm::chacha::Kind::from_name(kname).expect("cipher kind");
        let slice = unsafe { std::slice::from_raw_parts_mut(start, len) };
        let mut c = Real::new(kind, &[0x11u8; 32], &vec![0xffu8; kind.nonce_len()]);
        let seek_to: u64 = arg(args, "seek", "-1").parse::<i64>().map(|v| v as u64).unwrap_or(u64::MAX);
        if seek_to != u64::MAX {
            assert_eq!(c.try_seek(3, seek_to as u128, false), Some(true));
        }
        let mut p1 = vec![0u8; pre];
        c.apply(&mut p1);
        let refused = !c.try_apply(slice);
        let pos = c.try_pos(4);
        let want = if seek_to == u64::MAX { 0 } else { seek_to as u128 } + pre as u128;
        // usable afterwards, at the same position
        let mut probe = [0u8; 16];
        let still_ok = c.try_apply(&mut probe);
        let mut twin = Real::new(kind, &[0x11u8; 32], &vec![0xffu8; kind.nonce_len()]);
        assert_eq!(twin.try_seek(4, want, false), Some(true));
        let mut probe2 = [0u8; 16];
        twin.try_apply(&mut probe2);
        ok = refused && pos == Some(want) && still_ok && probe == probe2;
        if !ok {
            detail = format!("refused={} pos={:?} want={} usable={} bytes_equal={}", refused, pos, want, still_ok, probe == probe2);
        }
    } else if let Some(kname) = what.strip_prefix("alias:").or_else(|| what.strip_prefix("accept:")) {
        // A single call over more bytes than the machine has memory (e.g. 2^38 + 4096, more than the whole keystream of the
        // 32-bit-counter variant; the 64-bit-counter variants must serve it): the slice is one 64 MiB memory object mapped
        // back to back, so every window of the slice is the same memory and the call XORs all its keystream windows onto it.
        // The twin XORs the same keystream onto a 64 MiB buffer in window-sized calls.
        // `accept:` is the same call without the twin: the driver only watches that it is not refused (and stops it).
        use scen::s1_chacha_stream::Real;
        extern "C" {
            fn memfd_create(name: *const u8, flags: u32) -> i32;
            fn ftruncate(fd: i32, len: i64) -> i32;
        }
        let kind = refm::chacha::Kind::from_name(kname).expect("cipher kind");
        let win = 64usize << 20;
        let nwin = (len + win - 1) / win;
        let fd = unsafe { memfd_create(b"alias\0".as_ptr(), 0) };
        assert!(fd >= 0, "memfd_create failed");
        assert_eq!(unsafe { ftruncate(fd, win as i64) }, 0);
        let area = unsafe { mmap(std::ptr::null_mut(), nwin * win + 2 * page, 0, 0x22 | 0x4000, -1, 0) };
        assert!(!area.is_null() && area as isize != -1, "reserving {} bytes failed", nwin * win);
        for i in 0..nwin {
            // MAP_SHARED | MAP_FIXED
            let p = unsafe { mmap(area.add(page + i * win), win, 3, 0x01 | 0x10, fd, 0) };
            assert!(p as isize != -1, "window {} could not be mapped", i);
        }
        let slice = unsafe { std::slice::from_raw_parts_mut(area.add(page), len) };
        let key = [0x42u8; 32];
        let nonce = vec![7u8; kind.nonce_len()];
        let mut a = Real::new(kind, &key, &nonce);
        let mut p1 = vec![0u8; pre];
        a.apply(&mut p1);
        let served = a.try_apply(slice);
        if what.starts_with("accept:") {
            ok = served;
            if !ok {
                detail = "the call returned an error".into();
            }
        } else {
            let mut b = Real::new(kind, &key, &nonce);
            let mut p2 = vec![0u8; pre];
            b.apply(&mut p2);
            let mut acc = vec![0u8; win];
            let mut left = len;
            while left > 0 {
                let n = left.min(win);
                b.apply(&mut acc[..n]);
                left -= n;
            }
            let first_bad = acc.iter().zip(slice[..win.min(len)].iter()).position(|(x, y)| x != y);
            let (pa, pb) = (a.try_pos(4), b.try_pos(4));
            let mut t1 = [0u8; 70];
            let mut t2 = [0u8; 70];
            let (r1, r2) = (a.try_apply(&mut t1), b.try_apply(&mut t2));
            ok = served && first_bad.is_none() && pa == pb && pa == Some((pre + len) as u128) && r1 && r2 && t1 == t2;
            if !ok {
                detail = format!("served={} first differing byte of the window {:?}; positions {:?} / {:?}; following keystream equal: {}", served, first_bad, pa, pb, t1 == t2);
            }
        }
    } else if let Some(dr) = what.strip_prefix("rounds:") {
        // a double-round count no sweep can afford (2^31 and more: tens of seconds per block): refill4 against four
        // single-block refills, the five calls on five threads; `len` is the counter the four blocks start at
        use c2_chacha::guts::ChaCha;
        let drounds: u32 = dr.parse().expect("rounds:<u32>");
        let key = [0x42u8; 32];
        let nonce = [7u8; 8];
        let ctr = len as u64;
        let mk = move |c: u64| {
            let mut x = ChaCha::new(&key, &nonce);
            x.set_stream_param(0, c);
            x
        };
        let (wide, narrow) = std::thread::scope(|sc| {
            let w = sc.spawn(move || {
                let mut x = mk(ctr);
                let mut out = [0u8; 256];
                let r = kit::sim::guarded(|| x.refill4(drounds, &mut out));
                (r, out.to_vec(), x.get_stream_param(0), x.get_stream_param(1))
            });
            let ns: Vec<_> = (0..4u64)
                .map(|i| {
                    sc.spawn(move || {
                        let mut x = mk(ctr.wrapping_add(i));
                        let mut out = [0u8; 64];
                        let r = kit::sim::guarded(|| x.refill(drounds, &mut out));
                        (r, out.to_vec(), x.get_stream_param(0), x.get_stream_param(1))
                    })
                })
                .collect();
            (w.join().unwrap(), ns.into_iter().map(|h| h.join().unwrap()).collect::<Vec<_>>())
        });
        let mut four = Vec::new();
        for n in narrow.iter() {
            four.extend_from_slice(&n.1);
        }
        let panics: Vec<String> = std::iter::once(&wide.0).chain(narrow.iter().map(|n| &n.0)).filter_map(|r| r.clone().err()).collect();
        let first_bad = wide.1.iter().zip(four.iter()).position(|(a, b)| a != b);
        let end_ok = wide.2 == narrow[3].2 && wide.3 == narrow[3].3 && wide.2 == ctr.wrapping_add(4);
        ok = panics.is_empty() && first_bad.is_none() && end_ok;
        if !ok {
            detail = format!(
                "drounds={} counter={:#x}: panics {:?}; first differing byte {:?} (block {:?}); counter after refill4 {:#x}, after the fourth refill {:#x}",
                drounds,
                ctr,
                panics,
                first_bad,
                first_bad.map(|b| b / 64),
                wide.2,
                narrow[3].2
            );
        }
    } else {
        eprintln!("--what hash:<Type>|cipher:<Kind>|exhaust:<Kind>|rounds:<double rounds>");
        return 2;
    }
    println!(
        "{}",
        J::obj().set("what", J::str(&what)).set("len", J::U(len as u128)).set("pre", J::U(pre as u128)).set("ok", J::Bool(ok)).set("detail", J::S(detail)).set("wall_ms", J::U(t0.elapsed().as_millis())).to_string()
    );
    if ok {
        0
    } else {
        1
    }
}
