//! simworker: deterministic-simulation worker. One binary, all scenarios.
//!   simworker run --scenario S --mix M --seed N --runs R [--start K] [--threads T] [--max-ops K]
//!                 [--profile P] [--host-build H] [--replay-dir D] [--max-seconds S] [--digests F]
//!   simworker replay --file F
//!   simworker selftest
#![allow(clippy::all)]
mod hosts;
mod kit;
mod refm;
mod scen;

/// generate without executing the real code (used to dump the trace of a run that crashes the process)
pub static DRY: std::sync::atomic::AtomicBool = std::sync::atomic::AtomicBool::new(false);

use kit::json::J;
use kit::sim::{run_batch, BatchCfg, Op, Scenario, Stats};
use std::collections::BTreeMap;

fn arg<'a>(args: &'a BTreeMap<String, String>, k: &str, d: &'a str) -> &'a str {
    args.get(k).map(|s| s.as_str()).unwrap_or(d)
}

fn meta(args: &BTreeMap<String, String>) -> J {
    J::obj()
        .set("profile", J::str(arg(args, "profile", "unknown")))
        .set("host_build", J::str(arg(args, "host-build", "std")))
        .set("debug_assertions", J::Bool(cfg!(debug_assertions)))
        .set("max_host_level", J::U(hosts::max_level() as u128))
}

fn do_run<S: Scenario>(s: &S, args: &BTreeMap<String, String>) -> i32 {
    let cfg = BatchCfg {
        mix: arg(args, "mix", "").to_string(),
        seed: arg(args, "seed", "1").parse().expect("--seed"),
        start: arg(args, "start", "0").parse().expect("--start"),
        runs: arg(args, "runs", "1000").parse().expect("--runs"),
        threads: arg(args, "threads", "16").parse().expect("--threads"),
        max_ops: arg(args, "max-ops", "48").parse().expect("--max-ops"),
        max_seconds: arg(args, "max-seconds", "0").parse().expect("--max-seconds"),
        recheck_every: arg(args, "recheck-every", "100").parse().expect("--recheck-every"),
        keep_digests: args.contains_key("digests"),
    };
    let t0 = std::time::Instant::now();
    let res = run_batch(s, &cfg);
    let wall_ms = t0.elapsed().as_millis();
    let replay_dir = arg(args, "replay-dir", "");
    let mut found = Vec::new();
    for f in &res.found {
        let mut j = J::obj()
            .set("scenario", J::str(s.name()))
            .set("mix", J::str(&cfg.mix))
            .set("meta", meta(args))
            .set("verif_seed", J::U(cfg.seed as u128))
            .set("run_index", J::U(f.run_index as u128))
            .set("run_seed", J::U(f.run_seed as u128))
            .set("setup", f.setup.clone())
            .set("ops", J::A(f.ops.iter().map(|o| o.to_json()).collect()))
            .set("violation", f.violation.to_json().set("at_op", J::U(f.at_op as u128)))
            .set("minimised_from", J::U(f.minimised_from as u128));
        if !replay_dir.is_empty() {
            let _ = std::fs::create_dir_all(replay_dir);
            let text = j.to_string();
            let path = format!(
                "{}/{}-{}-{}-{:08x}.json",
                replay_dir,
                f.violation.props.first().cloned().unwrap_or("X".into()),
                s.name(),
                arg(args, "profile", "p"),
                kit::rng::fnv(&text) as u32
            );
            std::fs::write(&path, text + "\n").expect("write replay file");
            j.put("replay", J::S(path));
        }
        found.push(j);
    }
    if let Some(path) = args.get("digests") {
        let mut s = String::new();
        for (r, d) in &res.digests {
            s.push_str(&format!("{} {:016x}\n", r, d));
        }
        std::fs::write(path, s).expect("write digests");
    }
    let mut hostc = J::obj();
    for (k, v) in hosts::dispatch_counts() {
        hostc.put(&k, J::U(v as u128));
    }
    let out = J::obj()
        .set("scenario", J::str(s.name()))
        .set("mix", J::str(&cfg.mix))
        .set("meta", meta(args))
        .set("seed", J::U(cfg.seed as u128))
        .set("runs", J::U(res.runs as u128))
        .set("ops", J::U(res.ops as u128))
        .set("wall_ms", J::U(wall_ms))
        .set("digest_sum", J::S(format!("{:016x}", res.digest_sum)))
        .set("distinct_states", J::U(res.stats.states.len() as u128))
        .set("counters", J::from_map(&res.stats.counters))
        .set("notes", J::from_map(&res.stats.notes))
        .set("dispatches_by_host_level", hostc)
        .set("violating_runs", J::U(res.violating_runs as u128))
        .set("nondeterministic_seeds", J::A(res.nondeterministic.iter().map(|s| J::U(*s as u128)).collect()))
        .set("timed_out", J::Bool(res.timed_out))
        .set("samples", J::A(res.samples.clone()))
        .set("found", J::A(found));
    let out = if args.contains_key("states") && res.stats.states.len() <= 200_000 {
        out.set("state_hashes", J::A(res.stats.states.iter().map(|h| J::S(format!("{:x}", h))).collect()))
    } else {
        out
    };
    println!("{}", out.to_string());
    if !res.nondeterministic.is_empty() {
        return 2;
    }
    if res.violating_runs > 0 {
        return 1;
    }
    0
}

/// print the generated trace of one run (setup + ops) without judging it
fn do_trace<S: Scenario>(s: &S, args: &BTreeMap<String, String>) -> i32 {
    let seed: u64 = arg(args, "seed", "1").parse().expect("--seed");
    let r: u64 = arg(args, "start", "0").parse().expect("--start");
    let max_ops: usize = arg(args, "max-ops", "48").parse().expect("--max-ops");
    let rs = kit::rng::run_seed(seed, s.name().split('@').next().unwrap(), r);
    let mut stats = Stats::default();
    if args.contains_key("dry") {
        DRY.store(true, std::sync::atomic::Ordering::Relaxed);
    }
    let out = kit::sim::run_generated_at(s, arg(args, "mix", ""), rs, r, max_ops, &mut stats);
    let j = J::obj()
        .set("scenario", J::str(s.name()))
        .set("mix", J::str(arg(args, "mix", "")))
        .set("meta", meta(args))
        .set("verif_seed", J::U(seed as u128))
        .set("run_index", J::U(r as u128))
        .set("run_seed", J::U(rs as u128))
        .set("setup", out.setup.clone())
        .set("ops", J::A(out.ops.iter().map(|o| o.to_json()).collect()))
        .set("digest", J::S(format!("{:016x}", out.digest)));
    println!("{}", j.to_string());
    0
}

fn do_replay<S: Scenario>(s: &S, j: &J) -> i32 {
    let setup = j.get("setup").cloned().unwrap_or(J::obj());
    let ops: Vec<Op> = j.arr("ops").iter().filter_map(Op::from_json).collect();
    let mut stats = Stats::default();
    let (v, digest) = kit::sim::run_trace_digest(s, &setup, &ops, &mut stats);
    let d = J::S(format!("{:016x}", digest));
    match v {
        Some((v, at)) => {
            println!("{}", J::obj().set("reproduced", J::Bool(true)).set("digest", d).set("violation", v.to_json().set("at_op", J::U(at as u128))).to_string());
            1
        }
        None => {
            println!("{}", J::obj().set("reproduced", J::Bool(false)).set("digest", d).to_string());
            0
        }
    }
}

macro_rules! scenarios {
    ($name:expr, $f:ident, $($arg:expr),*) => {
        match $name {
            "chacha_stream" => $f(&scen::s1_chacha_stream::S1, $($arg),*),
            "chacha_block" => $f(&scen::s2_chacha_block::S2, $($arg),*),
            "hash_stream" => $f(&scen::s4_hash_stream::S4, $($arg),*),
            "mem" => $f(&scen::s5_mem::S5, $($arg),*),
            "chacha_stream@hosts" => $f(&scen::s3_hosts::Hosts { inner: scen::s1_chacha_stream::S1, name: "chacha_stream@hosts" }, $($arg),*),
            "chacha_block@hosts" => $f(&scen::s3_hosts::Hosts { inner: scen::s2_chacha_block::S2, name: "chacha_block@hosts" }, $($arg),*),
            "hash_stream@hosts" => $f(&scen::s3_hosts::Hosts { inner: scen::s4_hash_stream::S4, name: "hash_stream@hosts" }, $($arg),*),
            other => {
                eprintln!("unknown scenario {}", other);
                2
            }
        }
    };
}

fn main() {
    let argv: Vec<String> = std::env::args().collect();
    if argv.len() < 2 {
        eprintln!("usage: simworker run|replay|selftest ...");
        std::process::exit(2);
    }
    let mut args = BTreeMap::new();
    let mut i = 2;
    while i < argv.len() {
        if let Some(k) = argv[i].strip_prefix("--") {
            if i + 1 < argv.len() && !argv[i + 1].starts_with("--") {
                args.insert(k.to_string(), argv[i + 1].clone());
                i += 2;
            } else {
                args.insert(k.to_string(), "1".to_string());
                i += 1;
            }
        } else {
            i += 1;
        }
    }
    kit::sim::install_panic_hook();
    hosts::install();
    scen::arena::install_fault_handler();
    let code = match argv[1].as_str() {
        "selftest" => match selftest() {
            Ok(n) => {
                println!("{}", J::obj().set("selftest", J::str("ok")).set("vectors", J::U(n as u128)).to_string());
                0
            }
            Err(e) => {
                eprintln!("SELFTEST FAILED: {}", e);
                2
            }
        },
        "run" => {
            let name = arg(&args, "scenario", "").to_string();
            scenarios!(name.as_str(), do_run, &args)
        }
        "info" => {
            let ks = scen::s5_mem::kinds();
            println!("{}", J::obj().set("mem_kinds", J::U(ks.len() as u128)).set("mem_enum_combos", J::U(scen::s5_mem::combos(&ks).len() as u128)).set("max_host_level", J::U(hosts::max_level() as u128)).to_string());
            0
        }
        "trace" => {
            let name = arg(&args, "scenario", "").to_string();
            scenarios!(name.as_str(), do_trace, &args)
        }
        "replay" => {
            let text = std::fs::read_to_string(arg(&args, "file", "")).expect("read replay file");
            let j = J::parse(&text).expect("parse replay file");
            let name = j.s("scenario").unwrap_or("").to_string();
            scenarios!(name.as_str(), do_replay, &j)
        }
        _ => 2,
    };
    std::process::exit(code);
}

fn selftest() -> Result<u32, String> {
    let mut n = 0;
    n += refm::chacha::selftest()?;
    Ok(n)
}
