#!/usr/bin/env python3
"""Regenerates MANIFEST.json from the table below (kept in one place so it stays valid)."""
import json, os
V = os.path.dirname(os.path.abspath(__file__))

NA = {
 "C01": "pure function of (key, nonce, position, data): no history, schedule, fault or environment in the statement; deterministic simulation would degenerate into seeded input generation against a reference (another technique). The position/history dimension is decided as C02/C11.",
 "C04": "digest = pure function of the message; conformance over all inputs is differential/input-generation territory, not simulation.",
 "C05": "digest = pure function of (message, output length); no state history, schedule or fault involved.",
 "C06": "digest = pure function of the message; no state history, schedule or fault involved.",
 "C07": "digest = pure function of the message; no state history, schedule or fault involved.",
 "C09": "Threefish encryption is a stateless pure function of (key, tweak, block); no_unroll is a compile-time variant of the same pure function.",
 "C10": "stateless pure function round trip; nothing to schedule, interleave or fault.",
 "C12": "each lane operation is a pure function of its operands; the backend is a type parameter chosen by the caller, not detected, scheduled or injected.",
 "C13": "pure data movement on values; no history, environment or schedule in the statement.",
 "C19": "pure lane arithmetic in a crate nothing else uses; no state, no environment.",
 "C20": "a property of the build lattice (does each feature set compile); nothing executes, so there is no execution to simulate.",
}

CHECKS = {}
def check(pid, level, text, note, technique, ref):
    CHECKS[pid] = dict(
        property_id=pid,
        quick_cmd="./check %s quick" % pid,
        thorough_cmd="./check %s thorough" % pid,
        evidence_file="evidence/%s.json" % pid,
        replay_cmd_template="./check %s --replay {path}" % pid,
        engine="simworker",
        level_claimed=dict(category=level, text=text, design_ref=ref),
        level_note=note,
        technique=technique,
    )

check("C02", "exploration",
      "Seeded search over generated seek/apply/current_pos/failed-request histories on all seven cipher types, in release, overflow-checked and opt-level-0 builds, on simulated hosts of every SIMD level, on no-std/portable/target-cpu=native builds, on foreign hosts (s390x, powerpc, arm; thorough aarch64, i686) and simulated CPU generations under Miri; every step is compared with a position model and an independent ChaCha spec model, and a mismatch is decided by comparing different histories of the real code. Single calls with 2-8 GiB slices are compared with the same bytes in pieces; a single call over 2^38 + 4096 bytes (one 64 MiB memory object mapped back to back) must be accepted by the 64-bit-counter variants (thorough: completed and compared). Histories are unbounded, so sampling with model-state coverage measurement is the honest level.",
      "Trusted: the ChaCha spec model (validated against RFC 7539 / draft-xchacha / Bernstein vectors at every start), the position model, rustc/cargo. Not covered: positions reachable only by streaming > 2^64 bytes.",
      "deterministic simulation: seeded operation histories + reference model + real-code differential", "6.1")
check("C11", "exploration",
      "Same engine as C02 with a boundary mix whose injected fault is keystream exhaustion landing in every buffered state (empty buffer, buffered tail, lazily pending block, 4-block path), exact-fit requests, seeks of every integer type at/past the limit, and ordinary operations after every failure; atomicity (data, position, usability) is checked after each failed call. Requests longer than the whole keystream (2^38+1 bytes in one never-touched slice) must be refused at once (watchdog), while the same request to a 64-bit-counter variant must be accepted. Also on foreign hosts (s390x, powerpc, arm) and simulated CPU generations (Miri).",
      "Trusted: limit model (2^38 bytes for Ietf, none below 2^64 bytes otherwise), spec model as filter, real-code differential as decider. Relaxed: requests beyond 2^64 bytes on 64-bit-counter variants.",
      "deterministic simulation with fault injection (keystream exhaustion) + reference model", "6.2")

check("C03", "exploration",
      "Every seeded run of the cipher, block-API and dispatching-hash scenarios is executed on all five run-time capability levels in one process (hook H1 makes the detection result a simulated input) and, with the same seed, in six separately built workers (portable/no_simd and the five no-std compile-time dispatch arms); transcripts must be identical after every step / per run. Seeded programs of vector operations (every operation group of the Machine trait bounds, all ten vector types) run on the five x86 Machine types at once and on the generic machine. Foreign hosts (s390x, i686, powerpc, arm, aarch64 builds interpreted by Miri) execute the same seeded operation list as the native twin, incl. vector programs that load and store through read_le/read_be/write_le/write_be. Six simulated CPU generations (the x86 backend with run-time detection as shipped, interpreted by Miri with exactly sse2 / +sse3 / +ssse3 / +sse4.1 / +avx / +avx2) run it too: the interpreter answers feature detection from that set and refuses any instruction of an extension the simulated CPU lacks. A cargo-feature build (every feature the crates of the working tree declare and the default build leaves off: threefish no_unroll, the deprecated simd features ...) and builds for the x86-64-v2 / v3 baselines (static SSSE3/SSE4.1 code with the SSE2 machine selected at run time) join the cross-build comparison. A panic, refused instruction or wrong result on one host where another returns is a violation.",
      "Trusted: hook H1 takes exactly the arm a real CPU of that level would take (its match arms mirror the detection chains); the real CPU must support the simulated level (AVX2 here). For vector operations only cross-backend identity is judged. The x86 backend reaches the interpreter through an overlay copy of ppv-lite86 (its four cfg(miri) conditions switched) that the check makes from /repo's working tree. No open known finding (the JH big-endian defect is fixed: a3fb3e4).",
      "deterministic simulation: simulated CPU-capability hosts (run-time via hook, build-time via features) + cross-host transcript equality", "6.5")
check("C08", "exploration",
      "Seeded search over update/chain/clone/clone_from/reset/finalize_reset/finalize_fixed_reset/finalize_into(_reset)/finalize_into_dirty+reset/finalize/drop histories on interleaved instances of all 15 hash types (+18 more Skein output sizes), pieces aimed at every buffer fill level and padding boundary, counter jumps (H2) so that chunking is also exercised next to counter carries, update with a non-idempotent AsRef argument; every digest is compared with the same type's one-shot digest of the modelled byte string, so only history dependence (not spec conformance) can raise an alarm. One update call of 512 MiB / 4 GiB / 8 GiB (thorough: 32 GiB for every family, 256 GiB) is compared with the same bytes in 1 MiB pieces.",
      "Trusted: the byte-list model; Digest::digest of the same type as oracle. Runs are capped at 64 KiB.",
      "deterministic simulation: seeded operation histories + byte-list reference model", "6.6")
check("C14", "exploration",
      "Seeded block-API histories with counters aimed at every carry lane (low word within 4 of 2^32) and at the 2^64 wrap, double rounds 0..=10, on every simulated host (five in-process levels, portable and five no-std builds): refill4 versus four refills from a cloned state (bytes and resulting state), counter/stream-id read back after every step, emitted block compared with the spec block of the modelled counter. The cfg(target_endian = big) counter helpers - and whatever cfg(target_pointer_width) / cfg(target_arch) code a change adds - run on foreign hosts (s390x, powerpc, arm, aarch64, i686 builds under Miri) and on six simulated CPU generations (x86 backend under Miri), whose transcripts are compared with the native twin; double-round counts of 2^16, 2^24+1, 2^31 (thorough 2^32-1) are compared on five threads; c2-chacha built without its cipher front end (cargo feature rustcrypto_api off, with and without std, release and dev) runs the comparison in a program of its own.",
      "Trusted: the counter model; the spec block function only to recognise position errors (a block that equals the spec block of a nearby counter). Other spec deviations are C01 territory.",
      "deterministic simulation: seeded operation histories on simulated hosts + state model + real-code differential", "6.3")
check("C15", "exploration",
      "Seeded set/get/refill/derive histories: round trip and isolation of both stream parameters over the full 64-bit range, equality of state and following output with a state created directly through new(), and the two stream-equality predicates against their definition on pairs that differ in exactly one word, in several words by the same mask, or only in position; on std (three profiles), portable, five no-std target-feature builds, target-cpu=native and four layout-randomised nightly builds; the round trips, the untouched other parameter, equality with a directly created state and the predicates are also asserted on foreign hosts (s390x, powerpc, arm, i686; thorough aarch64) and simulated CPU generations under Miri, with every boundary value as the counter.",
      "Trusted: the four-word parameter model and the statement's definition of stream equality.",
      "deterministic simulation: seeded operation histories + state model", "6.4")

check("C16", "fault_enumeration",
      "Every byte-slice argument of every public operation is placed by a guard-page arena the simulator owns; the injected fault is the page fault (or a changed canary) that an access outside the slice causes. Both tiers enumerate completely the 3 placements x 64 start alignments / length residues for every (operation kind, buffered-prefix class, length class, simulated host level) combination; data contents are sampled. The result must equal the same call on an ordinary buffer and the process must survive. A second pass runs the operations under Miri with every slice an exact-size allocation (byte-granular bounds and alignment checking), on the portable backend and on the x86 backend (AVX2 machine), and a third under valgrind's memcheck on exact-size heap blocks (native SIMD code), which see what page granularity cannot. Single calls of 64 KiB - 16 MiB after odd prefixes and of 2-5 GiB end at an unmapped page. Builds: std, overflow-checked, portable, target-cpu=native, cargo features (threefish no_unroll), Groestl's non-AES fallbacks (hook H3).",
      "Trusted: mmap/mprotect semantics of Linux; an out-of-slice READ that stays inside the mapped page is not observable (both edge placements are enumerated to minimise this); input slices are read-only pages. Vector code paths per host level through hook H1; explicit Machine types for vector byte I/O.",
      "deterministic simulation with fault injection: simulator-owned buffer placement against unmapped pages, complete enumeration of placements/alignments", "6.7")
check("C17", "exploration",
      "The hashes' length counters are treated as clocks: hook H2 jumps them (in the implementation and in an independent reference hash alike) next to every word boundary of each format, the boundary is then crossed by update or by the padding, digests are compared and the counter is read back after every step. The first boundary of every family is additionally crossed for real by streaming up to 4 GiB through implementation and reference in lock-step. Counter jumps also run on a 32-bit host (i686), a big-endian 32-bit host (powerpc) and two simulated CPU generations under Miri, and in the cargo-feature build.",
      "Trusted: four reference hashes written from the specifications (validated against all KAT files of the repository at every start); hook H2 only reads/overwrites the counter field. Jumped states carry a real chaining value but are not reachable by a feasible real stream.",
      "deterministic simulation: simulated clock (length counter) jumps + independent reference models + real streaming across the first boundary", "6.8")

check("C18", "exploration",
      "Two schedulers for the two halves of the property. Instances of every algorithm are interleaved in one thread by the seeded scheduler and each instance's transcript is compared with the same operations replayed alone (fresh world and thread; for a fraction of the runs alone in a brand-new process, so that statics are cold and no other instance ever existed). Threads: 152 enumerated workloads of 2-6 threads released by a barrier (first calls of every algorithm racing on the one-time initialisations; bulk calls of several KiB incl. five concurrent callers; 'hammer' workloads of repeated short calls; the hammer after 246 / 65526 constructions; 'mix' workloads in which every thread uses another variant of one family - long misaligned calls, two variants in 16 KiB calls (thorough), and more Skein output lengths than a small cache has ways in repeated short calls), each in a fresh Miri interpreter per (workload, scheduler seed, preemption rate) - a cold process; Miri's seeded scheduler decides every preemption, its race/deadlock detector is on, results are compared with sequential expectations computed natively, and a failure is re-run with the threads one after the other to decide whether it needs overlap.",
      "Trusted: Miri's scheduler and data-race detector; under Miri the algorithms run on the portable ppv-lite86 backend and, in about half of the runs, on the x86 backend (overlay build, AVX2 machine), Groestl on Miri's AES-NI shims; std's CPUID cache is answered by the interpreter and not raced. Workloads are enumerated, schedules (seed x preemption rate) are sampled.",
      "deterministic simulation: seeded call-level interleaving with isolation replay (thread / cold process) + controlled thread scheduler (Miri seeds) from a cold process", "6.9")

def main():
    m = dict(
        version=1,
        setup_cmd="./check setup",
        hooks=dict(
            guard="cryptocorrosion_verif",
            enable="RUSTFLAGS='--cfg cryptocorrosion_verif --cfg zerocopy_derive_union_into_bytes' (passed by ./check to every worker build; path dependencies on /repo's working tree)",
            baseline_off_cmd="cd /repo && cargo test --workspace --no-fail-fast --offline",
            source_commits=["dd69e24", "8745fa8", "9c99347"],
            add_only=True,
        ),
        engines=[dict(name="simworker", path="sim/", serves_properties=sorted(CHECKS),
                      kind_free_text="own deterministic simulator: PRNG-driven world of hosts/tasks/operations, reference models, replay and minimisation; python driver ./check")],
        checks=[CHECKS[k] for k in sorted(CHECKS)],
        not_applicable=[dict(property_id=k, reason=v) for k, v in sorted(NA.items()) if k not in CHECKS],
        notes="Exit codes: 0 held, 1 VIOLATION line, 2 harness error. VERIF_SEED selects the exploration (default 1). Known findings: known_findings.json. See DESIGN.md.",
    )
    claimed = set(CHECKS)
    pending = []
    for p in pending:
        m["not_applicable"].append(dict(property_id=p, reason="applicable (see DESIGN.md) but its check is not built yet in this commit; not claimed until it is"))
    m["not_applicable"].sort(key=lambda e: e["property_id"])
    json.dump(m, open(os.path.join(V, "MANIFEST.json"), "w"), indent=1)
    open(os.path.join(V, "MANIFEST.json"), "a").write("\n")

if __name__ == "__main__":
    main()
