//! The block-level API of c2-chacha built WITHOUT the cipher front end (cargo feature `rustcrypto_api` off): refill4 against
//! four single-block refills (bytes, state, counter) for double-round counts 0..=10 and counters next to every carry.
//!   blockonly <seed>
use c2_chacha::guts::ChaCha;

fn splitmix(x: &mut u64) -> u64 {
    *x = x.wrapping_add(0x9e37_79b9_7f4a_7c15);
    let mut z = *x;
    z = (z ^ (z >> 30)).wrapping_mul(0xbf58_476d_1ce4_e5b9);
    z = (z ^ (z >> 27)).wrapping_mul(0x94d0_49bb_1331_11eb);
    z ^ (z >> 31)
}

fn main() {
    let mut s: u64 = std::env::args().nth(1).and_then(|x| x.parse().ok()).unwrap_or(1);
    let mut n = 0u64;
    for dr in 0u32..=10 {
        for low in [0u32, 1, 0x7fff_ffff, 0xffff_fffb, 0xffff_fffc, 0xffff_fffd, 0xffff_fffe, 0xffff_ffff] {
            for hi in [0u32, 1, 0xffff_ffff, splitmix(&mut s) as u32] {
                let mut key = [0u8; 32];
                for c in key.chunks_mut(8) {
                    c.copy_from_slice(&splitmix(&mut s).to_le_bytes());
                }
                let nonce12 = splitmix(&mut s) % 2 == 0;
                let nb: Vec<u8> = (0..if nonce12 { 12 } else { 8 }).map(|_| splitmix(&mut s) as u8).collect();
                let mut c = ChaCha::new(&key, &nb);
                let ctr = ((hi as u64) << 32) | low as u64;
                c.set_stream_param(0, ctr);
                let sid = c.get_stream_param(1);
                let mut wide = c.clone();
                let mut o4 = [0u8; 256];
                wide.refill4(dr, &mut o4);
                let mut o1 = [0u8; 256];
                for i in 0..4 {
                    let mut b = [0u8; 64];
                    c.refill(dr, &mut b);
                    o1[64 * i..64 * i + 64].copy_from_slice(&b);
                }
                if o4[..] != o1[..] {
                    println!("MISMATCH refill4 bytes differ from four refills: drounds={} counter={:#x} first differing block {}", dr, ctr, o4.iter().zip(o1.iter()).position(|(a, b)| a != b).unwrap() / 64);
                    std::process::exit(1);
                }
                if wide != c || wide.get_stream_param(0) != ctr.wrapping_add(4) || wide.get_stream_param(1) != sid {
                    println!("MISMATCH state after refill4 differs from four refills: drounds={} counter={:#x}: {:#x}/{:#x} vs {:#x}/{:#x}", dr, ctr, wide.get_stream_param(0), wide.get_stream_param(1), c.get_stream_param(0), c.get_stream_param(1));
                    std::process::exit(1);
                }
                n += 1;
            }
        }
    }
    println!("OK {} comparisons", n);
}
