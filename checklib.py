"""Driver library for /verif/check (see DESIGN.md section 3)."""
import sys, os, json, subprocess, time, hashlib, shutil, fcntl

VERIF = os.path.dirname(os.path.abspath(__file__))
REPO = os.path.abspath(os.environ.get("VERIF_REPO", "/repo"))
NCPU = os.cpu_count() or 4
GUARD = "cryptocorrosion_verif"
BASE_RUSTFLAGS = "--cfg zerocopy_derive_union_into_bytes --cfg " + GUARD + " -A unexpected_cfgs -A deprecated -A unused"


def seed():
    try:
        return int(os.environ.get("VERIF_SEED", "1")) & 0xFFFFFFFFFFFFFFFF
    except ValueError:
        return 1


def log(*a):
    print(*a, file=sys.stderr, flush=True)


# ---------------------------------------------------------------------------------------------
# host builds: each is one "machine" the simulated hosts can be
# ---------------------------------------------------------------------------------------------
def _dep(name, path, extra=""):
    return '%s = { path = "%s/%s"%s }' % (name, REPO, path, extra)


def deps_for(hb):
    if hb == "std":
        chacha = blake = jh = ""
    elif hb == "portable":
        chacha = ', features = ["no_simd"]'
        blake = jh = ""
    else:  # nostd-*: compile-time dispatch arms
        chacha = ', default-features = false, features = ["rustcrypto_api"]'
        blake = ', default-features = false, features = ["simd"]'
        jh = ", default-features = false"
    return "\n".join(
        [
            _dep("c2-chacha", "stream-ciphers/chacha", chacha),
            _dep("blake-hash", "hashes/blake", blake),
            _dep("jh-x86_64", "hashes/jh", jh),
            _dep("groestl-aesni", "hashes/groestl"),
            _dep("skein-hash", "hashes/skein"),
            _dep("threefish-cipher", "block-ciphers/threefish"),
            _dep("ppv-lite86", "utils-simd/ppv-lite86"),
        ]
    )


HOST_BUILDS = {
    "std": "",
    "portable": "--cfg hostbuild_fixed --cfg hostbuild_portable",
    "nostd-sse2": "--cfg hostbuild_fixed",
    "nostd-ssse3": "--cfg hostbuild_fixed -C target-feature=+ssse3",
    "nostd-sse41": "--cfg hostbuild_fixed -C target-feature=+ssse3,+sse4.1",
    "nostd-avx": "--cfg hostbuild_fixed -C target-feature=+ssse3,+sse4.1,+avx",
    "nostd-avx2": "--cfg hostbuild_fixed -C target-feature=+ssse3,+sse4.1,+avx,+avx2",
}


def repo_tag():
    if REPO == "/repo":
        return ""
    return "-" + hashlib.sha1(REPO.encode()).hexdigest()[:8]


def build(hb, profile):
    """Render the manifest for host build `hb` and build the worker from REPO's current working tree."""
    tag = hb + repo_tag()
    bdir = os.path.join(VERIF, "build", tag)
    os.makedirs(os.path.join(bdir, ".cargo"), exist_ok=True)
    lockf = open(os.path.join(bdir, ".lock"), "w")
    fcntl.flock(lockf, fcntl.LOCK_EX)
    try:
        tmpl = open(os.path.join(VERIF, "sim", "Cargo.toml.in")).read()
        manifest = tmpl.replace("@DEPS@", deps_for(hb)).replace("@REPO@", REPO).replace("@SIM@", os.path.join(VERIF, "sim"))
        mpath = os.path.join(bdir, "Cargo.toml")
        if not os.path.exists(mpath) or open(mpath).read() != manifest:
            open(mpath, "w").write(manifest)
        if not os.path.exists(os.path.join(bdir, "Cargo.lock")):
            shutil.copy(os.path.join(REPO, "Cargo.lock"), os.path.join(bdir, "Cargo.lock"))
        open(os.path.join(bdir, ".cargo", "config.toml"), "w").write("[net]\noffline = true\n")
        env = dict(os.environ)
        env["RUSTFLAGS"] = (BASE_RUSTFLAGS + " " + HOST_BUILDS[hb]).strip()
        env["CARGO_NET_OFFLINE"] = "true"
        env["CARGO_TARGET_DIR"] = os.path.join(VERIF, "target", tag)
        env.pop("CARGO_ENCODED_RUSTFLAGS", None)
        cmd = ["cargo", "build", "--offline", "--quiet", "--manifest-path", mpath]
        if profile == "release":
            cmd.append("--release")
        elif profile != "dev":
            cmd += ["--profile", profile]
        t0 = time.time()
        p = subprocess.run(cmd, env=env, cwd=bdir, stdout=subprocess.PIPE, stderr=subprocess.STDOUT, text=True)
        if p.returncode != 0:
            log(p.stdout[-6000:])
            raise HarnessError("build failed: %s/%s" % (hb, profile))
        log("[build] %s/%s ok (%.1fs)" % (hb, profile, time.time() - t0))
        pdir = "debug" if profile == "dev" else profile
        return os.path.join(VERIF, "target", tag, pdir, "simworker")
    finally:
        fcntl.flock(lockf, fcntl.LOCK_UN)
        lockf.close()


class HarnessError(Exception):
    pass


def run_worker(binary, args, timeout=None):
    p = subprocess.run([binary] + [str(a) for a in args], stdout=subprocess.PIPE, stderr=subprocess.PIPE, text=True, timeout=timeout)
    out = None
    for line in reversed(p.stdout.strip().splitlines()):
        line = line.strip()
        if line.startswith("{"):
            try:
                out = json.loads(line)
                break
            except ValueError:
                continue
    return p.returncode, out, p.stderr


# ---------------------------------------------------------------------------------------------
# known findings
# ---------------------------------------------------------------------------------------------
def known_findings():
    path = os.path.join(VERIF, "known_findings.json")
    if not os.path.exists(path):
        return []
    return json.load(open(path)).get("findings", [])


def open_finding_for(prop, signature):
    for f in known_findings():
        if f.get("status") == "open" and f.get("property") == prop and f.get("signature") == signature:
            return f
    return None


# ---------------------------------------------------------------------------------------------
# legs: (host build, profile, scenario, mix, runs quick, runs thorough, max ops)
# ---------------------------------------------------------------------------------------------
class Leg:
    def __init__(self, hb, profile, scenario, mix, quick, thorough, max_ops=48, extra=None, tiers=("quick", "thorough")):
        self.hb, self.profile, self.scenario, self.mix = hb, profile, scenario, mix
        self.quick, self.thorough, self.max_ops = quick, thorough, max_ops
        self.extra = extra or []
        self.tiers = tiers

    def name(self):
        return "%s/%s/%s/%s" % (self.scenario, self.mix, self.hb, self.profile)


PROPS = {}


def prop(pid, level, rule, assumptions, legs, real_vs_stub):
    PROPS[pid] = dict(level=level, rule=rule, assumptions=assumptions, legs=legs, real_vs_stub=real_vs_stub)


REAL = "real code: every algorithm, buffer and dispatch path of the crates under /repo, built from the working tree"
STUB = "simulated: the oracles (reference models), the CPU-capability report (hook H1), buffer placement, the counter value (hook H2)"

prop(
    "C02",
    "exploration",
    "one case = one seeded run: a world of 1-8 cipher instances (7 types) on one simulated host, <=48 generated operations "
    "(apply/try_apply/seek<T>/try_seek<T>/current_pos<T>/apply-twice/clone/renew/failed request) interleaved by the seeded scheduler, "
    "every step checked against the position model, the independent ChaCha spec model and, to decide a mismatch, other histories of the real code. "
    "distinct_nontrivial = number of distinct abstract model-side states (variant class, mid-block?, lazily pending block?, blocks-left class, "
    "op kind, length class, carry crossed, has-failed) reached, unioned over all legs",
    [
        "the ChaCha spec model (validated against RFC 7539 / XChaCha draft / Bernstein vectors on every run) is used as a filter; "
        "a mismatch is decided by comparing histories of the real code with each other",
        "positions >= 2^64 bytes are relaxed (a 64-bit-counter cipher may refuse them)",
        "seeded search: a clean batch is evidence, not proof",
    ],
    [
        Leg("std", "release", "chacha_stream", "C02", 120000, 4000000),
        Leg("std", "checked", "chacha_stream", "C02", 120000, 4000000),
        Leg("std", "dev", "chacha_stream", "C02", 8000, 200000),
        Leg("portable", "checked", "chacha_stream", "C02", 20000, 400000, tiers=("thorough",)),
    ],
    [REAL, STUB],
)

prop(
    "C11",
    "exploration",
    "one case = one seeded run as for C02 but with the boundary mix: IETF-heavy, positions within a few blocks of 0 / 2^38 / 2^64 bytes, "
    "requests aimed across the end of the keystream from every buffered state (empty buffer, buffered tail, lazily pending block, 4-block path), "
    "exact-fit requests, seeks of every integer type at / past the limit and negative, bursts of ordinary operations after each failure. "
    "distinct_nontrivial = distinct abstract model-side states reached (as for C02), unioned over legs",
    [
        "requests/seeks beyond 2^64 bytes on 64-bit-counter variants may return Err or Ok (relaxed); if Ok the bytes must follow the 64-bit-counter spec",
        "out-of-range arguments are only given to the try_ forms",
        "seeded search: a clean batch is evidence, not proof",
    ],
    [
        Leg("std", "release", "chacha_stream", "C11", 120000, 4000000),
        Leg("std", "checked", "chacha_stream", "C11", 120000, 4000000),
        Leg("std", "dev", "chacha_stream", "C11", 8000, 200000),
        Leg("portable", "checked", "chacha_stream", "C11", 20000, 400000, tiers=("thorough",)),
    ],
    [REAL, STUB],
)


# ---------------------------------------------------------------------------------------------
def run_property(pid, tier):
    spec = PROPS[pid]
    t0 = time.time()
    sd = seed()
    replay_dir = os.path.join(VERIF, "replays")
    os.makedirs(replay_dir, exist_ok=True)
    legs_out = []
    states = set()
    counters = {}
    notes = {}
    samples = []
    violations = []  # (violation json, replay path)
    known = []
    others = []
    total_runs = total_ops = 0
    harness_error = None
    for leg in spec["legs"]:
        if tier not in leg.tiers:
            continue
        runs = leg.quick if tier == "quick" else leg.thorough
        if runs <= 0:
            continue
        binary = build(leg.hb, leg.profile)
        args = ["run", "--scenario", leg.scenario, "--mix", leg.mix, "--seed", sd, "--runs", runs, "--threads", NCPU,
                "--max-ops", leg.max_ops, "--profile", leg.profile, "--host-build", leg.hb, "--replay-dir", replay_dir,
                "--states", "1"] + leg.extra
        rc, out, err = run_worker(binary, args)
        if out is None or rc not in (0, 1):
            log(err[-4000:])
            harness_error = "worker %s failed (rc=%s)" % (leg.name(), rc)
            if out is not None and out.get("nondeterministic_seeds"):
                harness_error += " non-deterministic seeds: %s" % out["nondeterministic_seeds"][:5]
            break
        total_runs += out["runs"]
        total_ops += out["ops"]
        for h in out.get("state_hashes", []):
            states.add(h)
        for k, v in out["counters"].items():
            counters[k] = counters.get(k, 0) + v
        for k, v in out["notes"].items():
            notes[k] = notes.get(k, 0) + v
        if len(samples) < 3:
            samples += out["samples"][:1]
        legs_out.append(
            dict(leg=leg.name(), runs=out["runs"], ops=out["ops"], wall_ms=out["wall_ms"], digest_sum=out["digest_sum"],
                 distinct_states=out["distinct_states"], violating_runs=out["violating_runs"], timed_out=out["timed_out"],
                 dispatches_by_host_level=out.get("dispatches_by_host_level"), max_host_level=out["meta"].get("max_host_level"))
        )
        log("[%s] leg %s: %d runs, %d ops, %d states, %d violating runs, %.1fs" % (pid, leg.name(), out["runs"], out["ops"], out["distinct_states"], out["violating_runs"], out["wall_ms"] / 1000.0))
        for f in out["found"]:
            v = f["violation"]
            if pid in v["properties"]:
                kf = open_finding_for(pid, v["signature"])
                if kf:
                    known.append((kf, f))
                else:
                    violations.append(f)
            else:
                others.append(f)
    wall = time.time() - t0
    return finish(pid, tier, sd, spec, wall, total_runs, total_ops, states, counters, notes, samples, legs_out, violations, known, others, harness_error)


def finish(pid, tier, sd, spec, wall, total_runs, total_ops, states, counters, notes, samples, legs_out, violations, known, others, harness_error, extra_cov=None):
    printed = set()
    for kf, f in known:
        key = kf.get("signature")
        if key in printed:
            continue
        printed.add(key)
        print("KNOWN-FINDING: property=%s %s" % (pid, kf.get("what", kf.get("signature"))))
    for f in others:
        v = f["violation"]
        print("NOTE: while checking %s: invariant %s of %s failed (%s) replay=%s" % (pid, v["invariant"], ",".join(v["properties"]), v["signature"], f.get("replay")))
    for f in violations:
        v = f["violation"]
        print("VIOLATION property=%s replay=%s" % (pid, f.get("replay")))
        print("  invariant=%s signature=%s" % (v["invariant"], v["signature"]))
        print("  detail: %s" % v["detail"])
        print("  minimised to %d ops from %d" % (len(f.get("ops", [])), f.get("minimised_from", 0)))
    runs_per_hour = int(total_runs / wall * 3600) if wall > 0 else 0
    faults = {k: v for k, v in counters.items() if k.startswith("fault.")}
    probes = {k: v for k, v in counters.items() if k.startswith("probe.")}
    opsk = {k: v for k, v in counters.items() if not (k.startswith("fault.") or k.startswith("probe."))}
    cov = dict(
        evaluations=total_runs,
        distinct_nontrivial=len(states),
        rule=spec["rule"],
        samples=samples[:3] if samples else [],
        operations_executed=total_ops,
        runs_per_hour=runs_per_hour,
        seeds_per_hour=runs_per_hour,
        simulated_time="event count: %d operations (no wall-clock time exists in this code base)" % total_ops,
        faults_fired=faults,
        probes_hit=probes,
        probes_never_hit=[],
        operation_counts=opsk,
        notes=notes,
        legs=legs_out,
        components=spec["real_vs_stub"],
        known_findings_reproduced=[kf.get("signature") for kf, _ in known],
        other_property_observations=[f["violation"]["signature"] for f in others],
        exhaustive=False,
    )
    if extra_cov:
        cov.update(extra_cov)
    ev = dict(property_id=pid, tier=tier, seed=sd, level=spec["level"], coverage=cov, assumptions=spec["assumptions"], wall_s=round(wall, 2), violations=len(violations))
    if harness_error:
        ev["harness_error"] = harness_error
    os.makedirs(os.path.join(VERIF, "evidence"), exist_ok=True)
    with open(os.path.join(VERIF, "evidence", pid + ".json"), "w") as fh:
        json.dump(ev, fh, indent=1, sort_keys=True)
        fh.write("\n")
    if harness_error:
        print("HARNESS-ERROR: %s" % harness_error)
        return 2
    if violations:
        return 1
    print("OK property=%s tier=%s runs=%d ops=%d states=%d wall=%.1fs" % (pid, tier, total_runs, total_ops, len(states), wall))
    return 0


def replay(pid, path):
    j = json.load(open(path))
    meta = j.get("meta", {})
    hb = meta.get("host_build", "std")
    profile = meta.get("profile", "release")
    binary = build(hb, profile)
    rc, out, err = run_worker(binary, ["replay", "--file", path])
    if out is None:
        log(err[-3000:])
        print("HARNESS-ERROR: replay worker failed rc=%s" % rc)
        return 2
    if out.get("reproduced"):
        v = out["violation"]
        if pid in v["properties"] or pid == "any":
            kf = open_finding_for(pid, v["signature"])
            if kf:
                print("KNOWN-FINDING: property=%s %s" % (pid, kf.get("what")))
                return 0
            print("VIOLATION property=%s replay=%s" % (pid, path))
            print("  invariant=%s signature=%s" % (v["invariant"], v["signature"]))
            print("  detail: %s" % v["detail"])
            return 1
        print("NOTE: replay fails invariant %s of %s, not of %s" % (v["invariant"], v["properties"], pid))
        return 0
    print("OK replay does not violate anything on this tree")
    return 0


def setup():
    t0 = time.time()
    needed = set()
    for pid, spec in PROPS.items():
        for leg in spec["legs"]:
            needed.add((leg.hb, leg.profile))
    for hb, profile in sorted(needed):
        binary = build(hb, profile)
        rc, out, err = run_worker(binary, ["selftest"])
        if rc != 0:
            log(err)
            print("HARNESS-ERROR: reference-model self-test failed in %s/%s" % (hb, profile))
            return 2
    print("setup ok (%.0fs)" % (time.time() - t0))
    return 0


def main(argv):
    if not argv:
        print(__doc__)
        return 2
    try:
        if argv[0] == "setup":
            return setup()
        pid = argv[0]
        if pid not in PROPS and pid != "any":
            print("unknown property %s (claimed: %s)" % (pid, " ".join(sorted(PROPS))))
            return 2
        if len(argv) >= 3 and argv[1] == "--replay":
            return replay(pid, argv[2])
        tier = os.environ.get("VERIF_TIER") or (argv[1] if len(argv) > 1 else "quick")
        if tier not in ("quick", "thorough"):
            tier = "quick"
        return run_property(pid, tier)
    except HarnessError as e:
        print("HARNESS-ERROR: %s" % e)
        return 2
