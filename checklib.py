"""Driver library for /verif/check (see DESIGN.md section 3)."""
import sys, os, json, subprocess, time, hashlib, shutil, fcntl

VERIF = os.path.dirname(os.path.abspath(__file__))
REPO = os.path.abspath(os.environ.get("VERIF_REPO", "/repo"))
NCPU = os.cpu_count() or 4
GUARD = "cryptocorrosion_verif"
BE_TARGET = "s390x-unknown-linux-gnu"
I686_TARGET = "i686-unknown-linux-gnu"
PPC_TARGET = "powerpc-unknown-linux-gnu"      # big-endian AND 32-bit
ARM_TARGET = "arm-unknown-linux-gnueabi"      # 32-bit, little-endian, not x86 (cfg(target_arch) paths)
A64_TARGET = "aarch64-unknown-linux-gnu"      # 64-bit, little-endian, not x86
BIG_ENDIAN_TARGETS = (BE_TARGET, PPC_TARGET)
FOREIGN_TARGETS = (BE_TARGET, I686_TARGET, PPC_TARGET, ARM_TARGET, A64_TARGET)
# simulated CPU generations (see x86miri_dirs below)
CPU_LEVELS = {
    "cpu:sse2": "",
    "cpu:sse3": "-C target-feature=+sse3",
    "cpu:ssse3": "-C target-feature=+sse3,+ssse3",
    "cpu:sse41": "-C target-feature=+sse3,+ssse3,+sse4.1",
    "cpu:avx": "-C target-feature=+sse3,+ssse3,+sse4.1,+sse4.2,+avx",
    "cpu:avx2": "-C target-feature=+sse3,+ssse3,+sse4.1,+sse4.2,+avx,+avx2,+fma,+bmi1,+bmi2",
}
BASE_RUSTFLAGS = "--cfg zerocopy_derive_union_into_bytes --cfg " + GUARD + " -A unexpected_cfgs -A deprecated -A unused"


def seed():
    try:
        return int(os.environ.get("VERIF_SEED", "1")) & 0xFFFFFFFFFFFFFFFF
    except ValueError:
        return 1


def log(*a):
    print(*a, file=sys.stderr, flush=True)


# ---------------------------------------------------------------------------------------------
# host builds: each is one "machine" the simulated hosts can be
# ---------------------------------------------------------------------------------------------
def _dep(name, path, extra=""):
    return '%s = { path = "%s/%s"%s }' % (name, REPO, path, extra)


def _declared_features(crate_dir):
    """names in the [features] table of a crate of the working tree"""
    names = []
    try:
        text = open(os.path.join(REPO, crate_dir, "Cargo.toml")).read()
    except OSError:
        return names
    in_f = False
    for line in text.splitlines():
        t = line.strip()
        if t.startswith("["):
            in_f = t == "[features]"
            continue
        if in_f and "=" in t and not t.startswith("#"):
            names.append(t.split("=")[0].strip())
    return names


def _features_clause(crate_dir):
    skip = {"default", "no_simd", "packed_simd"}
    fs = [f for f in _declared_features(crate_dir) if f not in skip]
    return (', features = [%s]' % ", ".join('"%s"' % f for f in fs)) if fs else ""


def deps_for(hb):
    tf = ppv = gro = ske = ""
    if hb in ("std", "std-native", "std-features", "std-v2", "std-v3") or hb.startswith("std-layout"):
        chacha = blake = jh = ""
        if hb == "std-features":
            # every cargo feature the crates declare and the default build leaves off (read from the working tree, so a feature
            # that a change adds or gives a meaning to is switched on too): today threefish's `no_unroll` (loops instead of unrolled
            # rounds; reaches Skein through feature unification) and the deprecated, empty `simd` features. `no_simd` is the
            # portable build; features that need a crate the offline registry lacks (packed_simd) are left out.
            chacha = _features_clause("stream-ciphers/chacha")
            blake = _features_clause("hashes/blake")
            jh = _features_clause("hashes/jh")
            tf = _features_clause("block-ciphers/threefish")
            ppv = _features_clause("utils-simd/ppv-lite86")
            gro = _features_clause("hashes/groestl")
            ske = _features_clause("hashes/skein")
    elif hb == "portable":
        chacha = ', features = ["no_simd"]'
        blake = jh = ""
    else:  # nostd-*: compile-time dispatch arms
        chacha = ', default-features = false, features = ["rustcrypto_api"]'
        blake = ', default-features = false, features = ["simd"]'
        jh = ", default-features = false"
    return "\n".join(
        [
            _dep("c2-chacha", "stream-ciphers/chacha", chacha),
            _dep("blake-hash", "hashes/blake", blake),
            _dep("jh-x86_64", "hashes/jh", jh),
            _dep("groestl-aesni", "hashes/groestl", gro),
            _dep("skein-hash", "hashes/skein", ske),
            _dep("threefish-cipher", "block-ciphers/threefish", tf),
            _dep("ppv-lite86", "utils-simd/ppv-lite86", ppv),
        ]
    )


HOST_BUILDS = {
    "std": "",
    # run-time dispatch as shipped, but compiled for exactly this CPU: every cfg(target_feature = ..) path the machine
    # supports (AVX2, AVX-512 ...) is compiled in, as with RUSTFLAGS=-C target-cpu=native
    "std-native": "-C target-cpu=native",
    "std-features": "",
    # run-time dispatch as shipped, compiled for a mid-level baseline: cfg(target_feature = "ssse3" / "sse4.1") code is compiled in
    # while the simulated host (hook H1) may still select the SSE2 machine - what a distribution build for x86-64-v2 does on an
    # AVX-less CPU
    "std-v2": "-C target-cpu=x86-64-v2",
    "std-v3": "-C target-cpu=x86-64-v3",
    # the compiler is part of the environment too: field order of ordinary (non-repr(C)) structs is unspecified; these two
    # builds let nightly rustc randomise it (a layout assumption in unsafe code shows here and nowhere else)
    "std-layout1": "-Zrandomize-layout -Zlayout-seed=1",
    "std-layout4": "-Zrandomize-layout -Zlayout-seed=4",
    # (which seeds actually reorder a given struct depends on the crate's metadata hash, i.e. also on the path of the tree
    # being built: four seeds leave a three-field struct in declaration order with probability about 1/81)
    "std-layout5": "-Zrandomize-layout -Zlayout-seed=5",
    "std-layout6": "-Zrandomize-layout -Zlayout-seed=6",
    "portable": "--cfg hostbuild_fixed --cfg hostbuild_portable",
    "nostd-sse2": "--cfg hostbuild_fixed",
    "nostd-ssse3": "--cfg hostbuild_fixed -C target-feature=+ssse3",
    "nostd-sse41": "--cfg hostbuild_fixed -C target-feature=+ssse3,+sse4.1",
    "nostd-avx": "--cfg hostbuild_fixed -C target-feature=+ssse3,+sse4.1,+avx",
    "nostd-avx2": "--cfg hostbuild_fixed -C target-feature=+ssse3,+sse4.1,+avx,+avx2",
}


def repo_tag():
    if REPO == "/repo":
        return ""
    return "-" + hashlib.sha1(REPO.encode()).hexdigest()[:8]


def build(hb, profile):
    """Render the manifest for host build `hb` and build the worker from REPO's current working tree."""
    tag = hb + repo_tag()
    bdir = os.path.join(VERIF, "build", tag)
    os.makedirs(os.path.join(bdir, ".cargo"), exist_ok=True)
    lockf = open(os.path.join(bdir, ".lock"), "w")
    fcntl.flock(lockf, fcntl.LOCK_EX)
    try:
        tmpl = open(os.path.join(VERIF, "sim", "Cargo.toml.in")).read()
        manifest = tmpl.replace("@DEPS@", deps_for(hb)).replace("@REPO@", REPO).replace("@SIM@", os.path.join(VERIF, "sim"))
        mpath = os.path.join(bdir, "Cargo.toml")
        if not os.path.exists(mpath) or open(mpath).read() != manifest:
            open(mpath, "w").write(manifest)
        if not os.path.exists(os.path.join(bdir, "Cargo.lock")):
            src = os.path.join(REPO, "Cargo.lock")
            if not os.path.exists(src):  # scratch worktrees do not carry the (untracked) lock file
                src = os.path.join(VERIF, "sim", "Cargo.lock.seed")
            shutil.copy(src, os.path.join(bdir, "Cargo.lock"))
        open(os.path.join(bdir, ".cargo", "config.toml"), "w").write("[net]\noffline = true\n")
        env = dict(os.environ)
        env["RUSTFLAGS"] = (BASE_RUSTFLAGS + " " + HOST_BUILDS[hb]).strip()
        env["CARGO_NET_OFFLINE"] = "true"
        env["CARGO_TARGET_DIR"] = os.path.join(VERIF, "target", tag)
        env.pop("CARGO_ENCODED_RUSTFLAGS", None)
        cmd = ["cargo"] + (["+nightly"] if hb.startswith("std-layout") else []) + ["build", "--offline", "--quiet", "--manifest-path", mpath]
        if profile == "release":
            cmd.append("--release")
        elif profile != "dev":
            cmd += ["--profile", profile]
        t0 = time.time()
        p = subprocess.run(cmd, env=env, cwd=bdir, stdout=subprocess.PIPE, stderr=subprocess.STDOUT, text=True)
        if p.returncode != 0:
            log(p.stdout[-6000:])
            raise HarnessError("build failed: %s/%s" % (hb, profile))
        log("[build] %s/%s ok (%.1fs)" % (hb, profile, time.time() - t0))
        pdir = "debug" if profile == "dev" else profile
        return os.path.join(VERIF, "target", tag, pdir, "simworker")
    finally:
        fcntl.flock(lockf, fcntl.LOCK_UN)
        lockf.close()


class HarnessError(Exception):
    pass


def run_sharded(binary, args, start, runs, nproc, digests=None):
    """Single-threaded worker processes over disjoint run ranges (needed when a violation kills the process:
    the fault handler reports the run and operation in flight). Returns (merged output, faults)."""
    import re
    per = (runs + nproc - 1) // nproc
    procs = []
    for i in range(nproc):
        s0 = start + i * per
        n = min(per, start + runs - s0)
        if n <= 0:
            break
        a = [binary] + [str(x) for x in args] + ["--start", str(s0), "--runs", str(n), "--threads", "1"]
        if digests:
            a += ["--digests", "%s.%d" % (digests, i)]
        procs.append((s0, n, subprocess.Popen(a, stdout=subprocess.PIPE, stderr=subprocess.PIPE, text=True)))
    merged = None
    faults = []
    for s0, n, p in procs:
        so, se = p.communicate()
        out = None
        for line in reversed(so.strip().splitlines()):
            if line.startswith("{"):
                try:
                    out = json.loads(line)
                    break
                except ValueError:
                    pass
        m = re.search(r"FAULT sig=(\d+) run=(\d+) op=(\d+)", so)
        if m:
            faults.append(dict(sig=int(m.group(1)), run=int(m.group(2)), op=int(m.group(3))))
            continue
        if out is None or p.returncode not in (0, 1):
            log(se[-3000:])
            raise HarnessError("sharded worker failed rc=%s" % p.returncode)
        if merged is None:
            merged = out
            merged["state_hashes"] = set(out.get("state_hashes", []))
        else:
            for k in ("runs", "ops", "violating_runs"):
                merged[k] += out[k]
            merged["wall_ms"] = max(merged["wall_ms"], out["wall_ms"])
            for k in ("counters", "notes"):
                for kk, vv in out[k].items():
                    merged[k][kk] = merged[k].get(kk, 0) + vv
            merged["state_hashes"] |= set(out.get("state_hashes", []))
            merged["found"] += out["found"]
            merged["nondeterministic_seeds"] += out["nondeterministic_seeds"]
            merged["digest_sum"] = "%016x" % ((int(merged["digest_sum"], 16) + int(out["digest_sum"], 16)) & 0xFFFFFFFFFFFFFFFF)
            if out.get("dispatches_by_host_level"):
                for kk, vv in out["dispatches_by_host_level"].items():
                    merged["dispatches_by_host_level"][kk] = merged["dispatches_by_host_level"].get(kk, 0) + vv
    if digests:
        with open(digests, "w") as out_f:
            for i in range(nproc):
                part = "%s.%d" % (digests, i)
                if os.path.exists(part):
                    out_f.write(open(part).read())
                    os.unlink(part)
    if merged is not None:
        merged["distinct_states"] = len(merged["state_hashes"])
        merged["state_hashes"] = sorted(merged["state_hashes"])
    return merged, faults


def fault_violation(pid, leg, binary, sd, fault, replay_dir):
    """Turn a process-killing fault into a replay file holding only the operation in flight; confirm it in a fresh child."""
    rc, tr, err = run_worker(binary, ["trace", "--dry", "--scenario", leg.scenario, "--mix", leg.mix, "--seed", sd, "--start", fault["run"],
                                      "--max-ops", leg.max_ops, "--profile", leg.profile, "--host-build", leg.hb] + leg.extra)
    if tr is None:
        raise HarnessError("could not dump the trace of the faulting run")
    total = len(tr["ops"])
    op = tr["ops"][fault["op"]] if fault["op"] < total else None
    tr["minimised_from"] = total
    if op is not None:
        tr["ops"] = [op]
    kind = tr["setup"].get("enum", {}).get("name", "")
    tr["violation"] = dict(properties=[pid], invariant="M2", at_op=0,
                           signature="process killed by signal %d:%s:kind=%s:mode=%s" % (fault["sig"], leg.scenario, op.get("kind") if op else "?", op.get("mode") if op else "?"),
                           detail="run %d op %d of %s: the process received signal %d (access outside the caller's buffer) %s" % (fault["run"], fault["op"], leg.name(), fault["sig"], kind))
    tr["worker_args"] = list(leg.extra)
    path = os.path.join(replay_dir, "%s-fault-%s-%d-%d.json" % (pid, leg.scenario, fault["run"], fault["op"]))
    json.dump(tr, open(path, "w"))
    p = subprocess.run([binary, "replay", "--file", path] + leg.extra, stdout=subprocess.PIPE, stderr=subprocess.PIPE, text=True)
    if "FAULT sig=" not in p.stdout:
        # the single operation alone does not fault: keep the whole run
        rc, tr2, err = run_worker(binary, ["trace", "--dry", "--scenario", leg.scenario, "--mix", leg.mix, "--seed", sd, "--start", fault["run"],
                                           "--max-ops", leg.max_ops, "--profile", leg.profile, "--host-build", leg.hb] + leg.extra)
        tr2["ops"] = tr2["ops"][: fault["op"] + 1]
        tr2["violation"] = tr["violation"]
        tr2["minimised_from"] = total
        tr2["worker_args"] = list(leg.extra)
        tr = tr2
        json.dump(tr, open(path, "w"))
        p = subprocess.run([binary, "replay", "--file", path] + leg.extra, stdout=subprocess.PIPE, stderr=subprocess.PIPE, text=True)
        if "FAULT sig=" not in p.stdout:
            raise HarnessError("fault of run %d op %d did not reproduce from its trace" % (fault["run"], fault["op"]))
    tr["replay"] = path
    return tr


def run_worker(binary, args, timeout=None):
    p = subprocess.run([binary] + [str(a) for a in args], stdout=subprocess.PIPE, stderr=subprocess.PIPE, text=True, timeout=timeout)
    out = None
    for line in reversed(p.stdout.strip().splitlines()):
        line = line.strip()
        if line.startswith("{"):
            try:
                out = json.loads(line)
                break
            except ValueError:
                continue
    return p.returncode, out, p.stderr


# ---------------------------------------------------------------------------------------------
# known findings
# ---------------------------------------------------------------------------------------------
def known_findings():
    path = os.path.join(VERIF, "known_findings.json")
    if not os.path.exists(path):
        return []
    return json.load(open(path)).get("findings", [])


def open_finding_for(prop, signature):
    for f in known_findings():
        if f.get("status") == "open" and f.get("property") == prop and f.get("signature") == signature:
            return f
    return None


# ---------------------------------------------------------------------------------------------
# legs: (host build, profile, scenario, mix, runs quick, runs thorough, max ops)
# ---------------------------------------------------------------------------------------------
class Leg:
    def __init__(self, hb, profile, scenario, mix, quick, thorough, max_ops=48, extra=None, tiers=("quick", "thorough"), sharded=False):
        self.sharded = sharded
        self.hb, self.profile, self.scenario, self.mix = hb, profile, scenario, mix
        self.quick, self.thorough, self.max_ops = quick, thorough, max_ops
        self.extra = extra or []
        self.tiers = tiers

    def name(self):
        return "%s/%s/%s/%s%s" % (self.scenario, self.mix, self.hb, self.profile, ("/" + "".join(self.extra).replace("--", "")) if self.extra else "")


class Cross:
    """The same seeded runs on several host builds; per-run event-log digests must be identical."""

    def __init__(self, scenario, mix, profile, quick, thorough, builds_quick, builds_thorough, max_ops=48):
        self.scenario, self.mix, self.profile = scenario, mix, profile
        self.quick, self.thorough, self.max_ops = quick, thorough, max_ops
        self.builds_quick, self.builds_thorough = builds_quick, builds_thorough

    def name(self):
        return "cross:%s/%s/%s" % (self.scenario, self.mix, self.profile)


PROPS = {}


def prop(pid, level, rule, assumptions, legs, real_vs_stub, cross=None, streams=None, selftest=False, miri=False, miri_mem=False, be_host=None, huge=None, memcheck=None, blockonly=False):
    PROPS[pid] = dict(blockonly=blockonly, memcheck=memcheck, level=level, rule=rule, assumptions=assumptions, legs=legs, real_vs_stub=real_vs_stub, cross=cross or [], streams=streams or [], selftest=selftest, miri=miri, miri_mem=miri_mem, be_host=be_host, huge=huge or [])


REAL = "real code: every algorithm, buffer and dispatch path of the crates under /repo, built from the working tree"
STUB = "simulated: the oracles (reference models), the CPU-capability report (hook H1), buffer placement, the counter value (hook H2)"

MID_HASH = [dict(what="hash:" + t_, len=l_, pre=p_) for (t_, l_, p_) in [
    ("Jh256", 65536, 3), ("Jh512", (1 << 20) + 64, 63), ("Blake256", 65536, 1), ("Blake512", (1 << 20), 127), ("Groestl256", 65536 + 64, 63),
    ("Groestl512", (1 << 20), 100), ("Skein256_32", 65536, 31), ("Skein512_64", (1 << 20) + 1, 63), ("Skein1024_128", 65536 * 3, 5),
    ("Jh224", (1 << 24) + 64, 1), ("Blake224", (1 << 24), 55), ("Groestl384", (1 << 24), 65), ("Skein512_28", (1 << 24) + 3, 64)]]
MID_CIPHER = [dict(what="cipher:" + t_, len=l_, pre=p_) for (t_, l_, p_) in [
    ("ChaCha20", 1 << 20, 5), ("ChaCha8", 1 << 16, 17), ("XChaCha12", (1 << 20) + 16, 63), ("Ietf", 1 << 24, 1), ("ChaCha12", (1 << 24) + 256, 37),
    ("XChaCha20", 1 << 16, 70), ("XChaCha8", 1 << 22, 255)]]


prop(
    "C02",
    "exploration",
    "one case = one seeded run: a world of 1-8 cipher instances (7 types) on one simulated host, <=48 generated operations "
    "(apply/try_apply/seek<T>/try_seek<T>/current_pos<T>/apply-twice/clone/renew/failed request) interleaved by the seeded scheduler, "
    "every step checked against the position model, the independent ChaCha spec model and, to decide a mismatch, other histories of the real code. "
    "distinct_nontrivial = number of distinct abstract model-side states (variant class, mid-block?, lazily pending block?, blocks-left class, "
    "op kind, length class, carry crossed, has-failed) reached, unioned over all legs",
    [
        "the ChaCha spec model (validated against RFC 7539 / XChaCha draft / Bernstein vectors on every run) is used as a filter; "
        "a mismatch is decided by comparing histories of the real code with each other",
        "positions >= 2^64 bytes are relaxed (a 64-bit-counter cipher may refuse them)",
        "seeded search: a clean batch is evidence, not proof",
    ],
    [
        Leg("std", "release", "chacha_stream", "C02", 1000000, 20000000),
        Leg("std", "checked", "chacha_stream", "C02", 1000000, 20000000),
        Leg("std", "dev", "chacha_stream", "C02", 50000, 1000000),
        Leg("portable", "checked", "chacha_stream", "C02", 20000, 2000000, tiers=("thorough",)),
        Leg("std-native", "release", "chacha_stream", "C02", 200000, 2000000),
        Leg("std-features", "release", "chacha_stream", "C02", 100000, 2000000),
        Leg("nostd-avx2", "release", "chacha_stream", "C02", 100000, 2000000),
    ],
    [REAL, STUB],
    be_host={"quick": [(BE_TARGET, 1, "cipher"), (PPC_TARGET, 1, "cipher"), (ARM_TARGET, 1, "cipher"), ("cpu:sse2", 1, "cipher"), ("cpu:sse41", 1, "cipher"), ("cpu:avx2", 1, "cipher")],
             "thorough": [(BE_TARGET, 6, "cipher"), (PPC_TARGET, 3, "cipher"), (ARM_TARGET, 3, "cipher"), (A64_TARGET, 3, "cipher"), (I686_TARGET, 3, "cipher")] + [(c_, 3, "cipher") for c_ in CPU_LEVELS]},
    huge=[
        dict(what="cipher:XChaCha20", len=4 * (1 << 30) + 3, pre=27),
        dict(what="cipher:ChaCha20", len=2 * (1 << 30) + 5),
        *MID_CIPHER,
        dict(what="cipher:ChaCha8", len=4 * (1 << 30) + 1024 + 5, pre=0),
        dict(what="cipher:XChaCha8", len=5 * (1 << 30) + 300, pre=63, tiers=("thorough",)),
        dict(what="exhaust:Ietf", len=(1 << 38) + 64, seek=0, timeout=20),
        dict(what="exhaust:Ietf", len=(1 << 38) + 1, timeout=20),
        dict(what="cipher:ChaCha8", len=3 * (1 << 30) + 77, pre=70, tiers=("thorough",)),
        dict(what="cipher:ChaCha12", len=4 * (1 << 30), pre=10, tiers=("thorough",)),
        # single calls over more bytes than there is memory (the slice is one 64 MiB object mapped back to back): the 64-bit-counter
        # variants serve more than 2^38 bytes in one call - quick only watches that the call is not refused (it is stopped after 4 s),
        # thorough lets it finish (256 GiB) and compares with the same keystream XORed window by window
        dict(what="accept:ChaCha8", len=(1 << 38) + 4096, accept_after=4),
        dict(what="accept:XChaCha20", len=(1 << 38) + (1 << 32) + 77, pre=5, accept_after=4),
        dict(what="alias:ChaCha20", len=8 * (1 << 30) + 300, pre=3),
        dict(what="alias:ChaCha8", len=(1 << 38) + 4096, tiers=("thorough",), timeout=3000),
        dict(what="alias:XChaCha12", len=33 * (1 << 30) + 65, pre=1, tiers=("thorough",), timeout=3000),
        dict(what="cipher:Ietf", len=4 * (1 << 30) + 1, pre=63, tiers=("thorough",)),
    ],
)

prop(
    "C11",
    "exploration",
    "one case = one seeded run as for C02 but with the boundary mix: IETF-heavy, positions within a few blocks of 0 / 2^38 / 2^64 bytes, "
    "requests aimed across the end of the keystream from every buffered state (empty buffer, buffered tail, lazily pending block, 4-block path), "
    "exact-fit requests, seeks of every integer type at / past the limit and negative, bursts of ordinary operations after each failure. "
    "distinct_nontrivial = distinct abstract model-side states reached (as for C02), unioned over legs",
    [
        "requests/seeks beyond 2^64 bytes on 64-bit-counter variants may return Err or Ok (relaxed); if Ok the bytes must follow the 64-bit-counter spec",
        "out-of-range arguments are only given to the try_ forms",
        "seeded search: a clean batch is evidence, not proof",
    ],
    [
        Leg("std", "release", "chacha_stream", "C11", 1000000, 20000000),
        Leg("std", "checked", "chacha_stream", "C11", 1000000, 20000000),
        Leg("std", "dev", "chacha_stream", "C11", 50000, 1000000),
        Leg("portable", "checked", "chacha_stream", "C11", 20000, 2000000, tiers=("thorough",)),
        Leg("std-native", "release", "chacha_stream", "C11", 200000, 2000000),
        Leg("nostd-avx2", "release", "chacha_stream", "C11", 100000, 2000000),
    ],
    [REAL, STUB],
    be_host={"quick": [(BE_TARGET, 1, "cipher"), (PPC_TARGET, 1, "cipher"), (ARM_TARGET, 1, "cipher"), ("cpu:sse2", 1, "cipher"), ("cpu:sse41", 1, "cipher"), ("cpu:avx2", 1, "cipher")],
             "thorough": [(BE_TARGET, 6, "cipher"), (PPC_TARGET, 3, "cipher"), (ARM_TARGET, 3, "cipher"), (A64_TARGET, 3, "cipher"), (I686_TARGET, 3, "cipher")] + [(c_, 3, "cipher") for c_ in CPU_LEVELS]},
    # requests longer than everything that is left (up to 2^38 + 1 bytes in ONE slice of untouched zero pages) must be
    # refused at once and atomically; a watchdog catches an acceptance
    huge=[
        dict(what="exhaust:Ietf", len=(1 << 38) + 1, timeout=20),
        dict(what="exhaust:Ietf", len=(1 << 38) + 1, seek=0, timeout=20),
        dict(what="exhaust:Ietf", len=(1 << 38), seek=1, timeout=20),
        dict(what="exhaust:Ietf", len=(1 << 38) - 63, seek=64, timeout=20),
        dict(what="exhaust:Ietf", len=(1 << 38), pre=10, timeout=20),
        dict(what="exhaust:Ietf", len=(1 << 38) + (1 << 32), seek=0, pre=0, timeout=20),
        # ... while the same request to a 64-bit-counter variant is far from its end and must not be refused
        dict(what="accept:ChaCha12", len=(1 << 38) + 1, accept_after=4),
        dict(what="accept:XChaCha8", len=(1 << 38) + 64, pre=10, accept_after=4),
    ],
)


ALL_FIXED = ["portable", "nostd-sse2", "nostd-ssse3", "nostd-sse41", "nostd-avx", "nostd-avx2", "std-native"]
QUICK_FIXED = ["portable", "nostd-sse2", "nostd-avx2", "std-native"]

prop(
    "C14",
    "exploration",
    "one case = one seeded run: 1-8 guts::ChaCha states on one simulated host, <=32 operations (refill, refill4, fork = clone + refill4 vs 4 x refill, "
    "set/get_stream_param, derive, compare with directly created state), counters biased to low word within 4 of 2^32 (carry lands in each of the four lanes) "
    "and within 4 of 2^64, double rounds 0..=10; the same seeded runs are also executed on the portable and the five compile-time (no-std) host builds and their "
    "per-run transcripts compared. distinct_nontrivial = distinct abstract states (op kind, low-word class incl. carry lane, high-word class, near-2^64 flag, rounds)",
    [
        "refill4 = 4 x refill and the state after them are decided by comparing real code with real code and through get_stream_param; "
        "'the block for the current counter' is decided with the spec model only when the emitted block equals the spec block of a nearby counter (a position error); "
        "any other deviation from the spec block function is C01 territory and reported as a note",
        "seeded search: a clean batch is evidence, not proof",
    ],
    [
        Leg("std", "release", "chacha_block", "C14", 1000000, 20000000, max_ops=32),
        Leg("std", "checked", "chacha_block", "C14", 1000000, 20000000, max_ops=32),
        Leg("std", "dev", "chacha_block", "C14", 50000, 1000000, max_ops=32),
        Leg("std-features", "release", "chacha_block", "C14", 100000, 2000000, max_ops=32),
        Leg("std-v2", "checked", "chacha_block", "C14", 100000, 2000000, max_ops=32),
    ],
    [REAL, STUB],
    cross=[Cross("chacha_block", "C14", "checked", 40000, 400000, QUICK_FIXED, ALL_FIXED, max_ops=32)],
    be_host={"quick": [(BE_TARGET, 2, "block,cipher"), (PPC_TARGET, 1, "block,cipher"), (ARM_TARGET, 1, "block,cipher"), (A64_TARGET, 1, "block"), (I686_TARGET, 1, "block")]
             + [(c_, 1, "block") for c_ in CPU_LEVELS],
             "thorough": [(BE_TARGET, 12, "block,cipher"), (PPC_TARGET, 6, "block,cipher"), (ARM_TARGET, 6, "block,cipher"), (A64_TARGET, 6, "block,cipher"), (I686_TARGET, 6, "block,cipher")]
             + [(c_, 6, "block,cipher") for c_ in CPU_LEVELS]},
    # double-round counts far beyond the sweep (the statement says "any number of double rounds"): `len` is the starting counter
    huge=[
        dict(what="rounds:2147483648", len=0xfffffffe),
        dict(what="rounds:4294967295", len=0xffffffffffffffff, tiers=("thorough",)),
        dict(what="rounds:2147483649", len=5, tiers=("thorough",)),
        dict(what="rounds:65536", len=0xfffffffd),
        dict(what="rounds:16777217", len=0x1fffffffe),
    ],
    blockonly=True,
)

prop(
    "C15",
    "exploration",
    "one case = one seeded run of the block-API scenario with the parameter mix: set_stream_param(0|1, v) over the full 64-bit range, get_stream_param, refill, "
    "derive a second state that differs by exactly one of {nothing, some refills, one key bit, d[1], d[2], d[3], rebuilt through new()} and evaluate "
    "stream32_eq/stream64_eq in both directions, compare state and following output with a state created directly with the model's values. "
    "distinct_nontrivial = distinct abstract states (op kind, parameter, counter classes, derivation kind, expected predicate values)",
    ["the stream-equality oracle is the statement itself: key equal and d[1..4] (32-bit) / d[2..4] (64-bit) equal", "seeded search: a clean batch is evidence, not proof"],
    [
        Leg("std", "release", "chacha_block", "C15", 1000000, 20000000, max_ops=32),
        Leg("std", "checked", "chacha_block", "C15", 1000000, 20000000, max_ops=32),
        Leg("std", "dev", "chacha_block", "C15", 50000, 1000000, max_ops=32),
        Leg("portable", "checked", "chacha_block", "C15", 20000, 300000, max_ops=32, tiers=("thorough",)),
        # builds whose target features are fixed at compile time (code under cfg(target_feature = ..) exists only there)
        Leg("nostd-sse41", "release", "chacha_block", "C15", 100000, 1000000, max_ops=32),
        Leg("nostd-avx2", "release", "chacha_block", "C15", 100000, 1000000, max_ops=32),
        Leg("std-native", "release", "chacha_block", "C15", 100000, 1000000, max_ops=32),
        Leg("std-features", "release", "chacha_block", "C15", 100000, 1000000, max_ops=32),
        Leg("std-features", "release", "chacha_block@hosts", "C15", 40000, 400000, max_ops=32),
        Leg("std-v2", "release", "chacha_block@hosts", "C15", 40000, 400000, max_ops=32),
        Leg("std-layout1", "release", "chacha_block", "C15", 100000, 1000000, max_ops=32),
        Leg("std-layout4", "release", "chacha_block", "C15", 100000, 1000000, max_ops=32),
        Leg("std-layout5", "release", "chacha_block", "C15", 100000, 1000000, max_ops=32),
        Leg("std-layout6", "release", "chacha_block", "C15", 100000, 1000000, max_ops=32),
        Leg("nostd-sse2", "release", "chacha_block", "C15", 0, 1000000, max_ops=32),
        Leg("nostd-ssse3", "release", "chacha_block", "C15", 0, 1000000, max_ops=32),
        Leg("nostd-avx", "release", "chacha_block", "C15", 0, 1000000, max_ops=32),
    ],
    [REAL, STUB],
    # set/get round trips, the untouched other parameter, equality with a directly created state and the two predicates, asserted
    # on the foreign hosts themselves (portable backend; the counter helpers of guts.rs are cfg(target_endian) code)
    be_host={"quick": [(BE_TARGET, 2, "params"), (PPC_TARGET, 2, "params"), (ARM_TARGET, 1, "params"), (I686_TARGET, 1, "params"), ("cpu:sse2", 1, "params"), ("cpu:avx2", 1, "params")],
             "thorough": [(BE_TARGET, 20, "params"), (PPC_TARGET, 20, "params"), (ARM_TARGET, 10, "params"), (I686_TARGET, 10, "params"), (A64_TARGET, 10, "params")]
             + [(c_, 10, "params") for c_ in CPU_LEVELS]},
)

prop(
    "C08",
    "exploration",
    "one case = one seeded run: 1-8 interleaved instances of the 15 hash types (+18 further Skein output sizes) on one simulated host, <=30 operations "
    "(update/chain with pieces aimed at every buffer fill level: 0, 1, b-f-1, b-f, b-f+1, b, 2b-1, 2b, 2b+1, k*b+r, padding boundaries, sometimes up to 64 KiB; "
    "clone; reset; finalize_reset (both trait paths); finalize; drop), every remaining instance finalised at the end; each digest compared with the same type's "
    "one-shot digest of the bytes the model says were absorbed. distinct_nontrivial = distinct abstract states (type, fill class, op kind, piece class, history flags)",
    [
        "the oracle is the same type's own one-shot digest on purpose: C08 is about invariance under history, not conformance, so a spec deviation raises no alarm here",
        "at most 64 KiB per run",
        "seeded search: a clean batch is evidence, not proof",
    ],
    [
        Leg("std", "release", "hash_stream", "C08", 600000, 12000000, max_ops=30),
        Leg("std", "checked", "hash_stream", "C08", 600000, 12000000, max_ops=30),
        Leg("std", "dev", "hash_stream", "C08", 8000, 150000, max_ops=30),
        Leg("portable", "checked", "hash_stream", "C08", 20000, 1000000, max_ops=30, tiers=("thorough",)),
        Leg("std-native", "release", "hash_stream", "C08", 100000, 1000000, max_ops=30),
        Leg("std-features", "release", "hash_stream", "C08", 100000, 1000000, max_ops=30),
        Leg("std", "release", "hash_stream", "C08", 50000, 1000000, max_ops=30, extra=["--groestl-level", "2"]),
        Leg("std", "checked", "hash_stream", "C08", 0, 1000000, max_ops=30, extra=["--groestl-level", "1"]),
    ],
    [REAL, STUB],
    # the whole message in ONE update call (and through Digest::digest) against the same bytes in 1 MiB-3 pieces:
    # a single call longer than 2^32 bytes / 2^32 bits must be chunking-invariant too
    streams=[
        ("Groestl256", 4096 * (1 << 20), ("quick", "thorough"), False, dict(oneshot=True)),
        ("Blake256", 512 * (1 << 20), ("quick", "thorough"), False, dict(oneshot=True)),
        ("Groestl512", 4096 * (1 << 20), ("thorough",), False, dict(oneshot=True)),
        ("Groestl224", 4096 * (1 << 20), ("thorough",), False, dict(oneshot=True)),
        ("Groestl384", 4096 * (1 << 20), ("thorough",), False, dict(oneshot=True)),
        ("Blake512", 4096 * (1 << 20), ("thorough",), False, dict(oneshot=True)),
        ("Jh256", 4096 * (1 << 20), ("thorough",), False, dict(oneshot=True)),
        ("Skein256_32", 4096 * (1 << 20), ("thorough",), False, dict(oneshot=True)),
        ("Skein512_64", 4096 * (1 << 20), ("thorough",), False, dict(oneshot=True)),
        ("Skein1024_128", 4096 * (1 << 20), ("thorough",), False, dict(oneshot=True)),
        ("Blake224", 512 * (1 << 20), ("thorough",), False, dict(oneshot=True, profile="checked")),
    ],
    # one update call of 32 GiB and more (2^31 128-bit words, 2^32 64-byte blocks ...) of never-written zero pages against the
    # same bytes in 1 MiB-3 pieces
    huge=[
        dict(what="hash:Groestl256", len=8 * (1 << 30) + 200, tiers=("quick",)),
        *MID_HASH,
        # lengths just below / at 2^32 bytes (a run length capped at "the largest multiple of the block size below 2^32"), and
        # a 4 GiB call arriving on more than half a buffered block
        dict(what="hash:Skein512_64", len=(1 << 32) - 64),
        dict(what="hash:Groestl512", len=(1 << 32), pre=100),
        # every family in one call of just over 2^32 bytes (a byte count of one call narrowed to 32 bits: seeded change C08-m)
        dict(what="hash:Blake256", len=(1 << 32) + 192),
        dict(what="hash:Blake224", len=(1 << 32) + 64, pre=3),
        dict(what="hash:Jh224", len=(1 << 32) + 64, pre=1),
        dict(what="hash:Skein256_32", len=(1 << 32) + 33),
        dict(what="hash:Skein256_32", len=(1 << 32) - 32, tiers=("thorough",)),
        dict(what="hash:Skein1024_128", len=(1 << 32) - 128, pre=128, tiers=("thorough",)),
        dict(what="hash:Blake512", len=(1 << 32) - 128, pre=127, tiers=("thorough",)),
        dict(what="hash:Jh256", len=(1 << 32) - 64, pre=63, tiers=("thorough",)),
        dict(what="hash:Groestl256", len=(1 << 32) - 64, pre=1, tiers=("thorough",)),
        dict(what="hash:Groestl384", len=2 * ((1 << 32) - 128), pre=127, tiers=("thorough",)),
        dict(what="hash:Groestl256", len=32 * (1 << 30) + 200, tiers=("thorough",), timeout=3000),
        dict(what="hash:Groestl512", len=32 * (1 << 30) + 129, pre=7, tiers=("thorough",), timeout=3000),
        dict(what="hash:Blake256", len=32 * (1 << 30) + 65, tiers=("thorough",), timeout=3000),
        dict(what="hash:Jh256", len=32 * (1 << 30) + 64, pre=1, tiers=("thorough",), timeout=3000),
        dict(what="hash:Skein512_64", len=32 * (1 << 30) + 1, tiers=("thorough",), timeout=3000),
        dict(what="hash:Groestl224", len=256 * (1 << 30) + 64, tiers=("thorough",), timeout=6000),
    ],
)

prop(
    "C03",
    "exploration",
    "one case = one seeded run executed on every simulated host: (a) in one process the same world and operation list on the five capability levels "
    "SSE2/SSSE3/SSE4.1/AVX/AVX2 reported through hook H1, steps interleaved host by host, transcripts compared after every step; (b) the same seeded runs in separately "
    "built workers - portable (no_simd) and the five no-std compile-time-dispatch builds - whose per-run transcript digests are compared with the std build. Workloads: "
    "cipher histories (S1), block-API histories (S2), hash histories restricted to the dispatching hashes BLAKE x4 / JH x4 (S4), and seeded PROGRAMS OF VECTOR OPERATIONS "
    "(S8: every operation group of the Machine trait bounds on all 10 vector types - bit ops, 8+1 rotates, add/bswap, bit-group swaps, word and lane shuffles, extract/insert, lanes, byte I/O in both orders, ==, "
    "transpose4, to_scalars - executed on the five x86 Machine types at once and on the generic machine in the portable build). "
    "distinct_nontrivial = distinct abstract states of the underlying scenarios reached on the first host",
    [
        "a host's capability level is constant for the whole run (a real process never sees detection change)",
        "levels above what the CPU of this machine can execute are skipped (max_host_level in the legs)",
        "for vector operations only cross-backend identity is judged, not what an operation should compute (C12/C13 are not claimed)",
        "seeded search: a clean batch is evidence, not proof",
    ],
    [
        Leg("std", "release", "chacha_stream@hosts", "C02", 40000, 600000),
        Leg("std", "checked", "chacha_block@hosts", "C14", 40000, 600000, max_ops=32),
        Leg("std", "release", "hash_stream@hosts", "C03", 40000, 600000, max_ops=30),
        Leg("std", "checked", "hash_stream@hosts", "C03", 20000, 300000, max_ops=30),
        # programs of vector operations on every Machine type at once (SSE2..AVX2), registers compared after every step
        Leg("std", "release", "vecops", "C03", 300000, 6000000, max_ops=40),
        Leg("std", "checked", "vecops", "C03", 100000, 2000000, max_ops=40),
        Leg("std-v2", "release", "vecops", "C03", 100000, 2000000, max_ops=40),
        Leg("std-v3", "release", "vecops", "C03", 50000, 2000000, max_ops=40),
        Leg("std-v2", "release", "hash_stream@hosts", "C03", 20000, 400000, max_ops=30),
        Leg("std-v2", "release", "chacha_stream@hosts", "C02", 20000, 400000),
        Leg("std-v2", "release", "chacha_block@hosts", "C14", 20000, 400000, max_ops=32),
        Leg("std-features", "release", "chacha_block@hosts", "C14", 20000, 400000, max_ops=32),
        Leg("std-features", "release", "vecops", "C03", 50000, 1000000, max_ops=40),
    ],
    [REAL, STUB],
    cross=[
        Cross("hash_stream", "C03", "release", 20000, 200000, QUICK_FIXED + ["std-features"], ALL_FIXED + ["std-features"], max_ops=30),
        Cross("chacha_stream", "C02", "release", 20000, 200000, QUICK_FIXED, ALL_FIXED),
        Cross("chacha_block", "C14", "release", 20000, 200000, QUICK_FIXED, ALL_FIXED, max_ops=32),
        Cross("vecops", "C03", "release", 100000, 2000000, ["portable", "std-native", "std-v2", "std-features"], ["portable", "nostd-sse2", "nostd-avx2", "std-native", "std-v2", "std-v3", "std-features"], max_ops=40),
    ],
    # (the lane-level vector programs are not compared on the big-endian host: their storage-conversion loads are a
    # native-memory pun by design; the byte-I/O programs - vecopsb - are)
    be_host={"quick": [(BE_TARGET, 1, "cipher,jh1,vecopsb"), (I686_TARGET, 1, "vecops,vecopsb"), (PPC_TARGET, 1, "jh1,vecopsb,block"), (ARM_TARGET, 1, "jh1,vecops,vecopsb")]
             + [(c_, 1, "cipher,hash,vecops,vecopsb") for c_ in CPU_LEVELS],
             "thorough": [(BE_TARGET, 2, "block,cipher,hash,vecopsb"), (I686_TARGET, 3, "cipher,hash,vecops,vecopsb"), (PPC_TARGET, 2, "block,cipher,hash,vecopsb"),
                          (ARM_TARGET, 2, "block,cipher,hash,vecops,vecopsb"), (A64_TARGET, 2, "block,cipher,hash,vecops,vecopsb")]
             + [(c_, 3, "block,cipher,hash,params,vecops,vecopsb") for c_ in CPU_LEVELS]},
)


prop(
    "C16",
    "fault_enumeration",
    "one case = one operation on buffers placed by the simulator's guard-page arena: (operation kind: apply_keystream x7 ciphers with 0..130 bytes already buffered, "
    "cipher construction from key/nonce slices x7, hash update x24 with a partly filled buffer, Threefish encrypt/decrypt x3, vector byte load/store x5 machines x5 types x le/be, "
    "block-API refill/refill4 output arrays and key/nonce, JH compressor block) x placement (slice ends on the last byte before an unmapped page, starts on the first byte after one, "
    "or lies mid-page between canaries) x start alignment 0..63 x length. Input-only slices are in read-only pages. The fault is a page fault: the result must equal the same "
    "operation on an ordinary buffer, canaries must be intact, the process must survive. Quick tier: seeded sample of the space plus the enumeration below for every kind. "
    "Both tiers ENUMERATE COMPLETELY, per (kind, buffered-prefix class, length class, simulated host level), the three placements x all 64 start alignments/length residues "
    "(192 cases each); thorough adds more length classes via a larger sampled batch in release and overflow-checked builds and on the portable build. "
    "distinct_nontrivial = distinct (kind, placement, start alignment, length class, prefix class) tuples executed",
    [
        "guard pages detect an access that crosses the slice end placed at a page edge (hence every operation runs in both edge placements); an out-of-bounds access that stays inside the mapped page is visible only as a changed canary (writes) or not at all (reads)",
        "data contents, keys and nonces are sampled, placements/alignments/length residues are enumerated",
        "second pass under Miri (byte-granular bounds + symbolic alignment checking on exact-size allocations) covers what guard pages cannot see; x86 vector code cannot run under Miri (cfg(miri) selects the portable backend), so that pass covers the backend-independent code, the portable backend and Groestl",
    ],
    [
        Leg("std", "release", "mem", "C16enum", -1, -1, max_ops=192, sharded=True),
        Leg("std", "checked", "mem", "C16enum", 0, -1, max_ops=192, sharded=True),
        Leg("std", "release", "mem", "C16", 60000, 1500000, max_ops=40, sharded=True),
        Leg("std", "checked", "mem", "C16", 20000, 600000, max_ops=40, sharded=True),
        Leg("portable", "release", "mem", "C16enum", -1, -1, max_ops=192, sharded=True),
        Leg("portable", "release", "mem", "C16", 0, 300000, max_ops=40, sharded=True),
        Leg("std-native", "release", "mem", "C16enum", -1, -1, max_ops=192, sharded=True),
        Leg("std-features", "release", "mem", "C16enum", -1, -1, max_ops=192, sharded=True),
        Leg("std-features", "checked", "mem", "C16", 20000, 300000, max_ops=40, sharded=True),
        # hook H3: the Groestl fallback compressor variants (run-time detection answers "no AES-NI" / "no SSSE3")
        Leg("std", "release", "mem", "C16enum", -1, -1, max_ops=192, sharded=True, extra=["--groestl-level", "2"]),
        Leg("std", "release", "mem", "C16enum", 0, -1, max_ops=192, sharded=True, extra=["--groestl-level", "1"]),
        Leg("std", "release", "mem", "C16", 20000, 300000, max_ops=40, sharded=True, extra=["--groestl-level", "1"]),
    ],
    [REAL, STUB + "; second pass: Miri interprets the real crates (portable SIMD backend and, in a second run, the x86 backend with the AVX2 machine; Groestl on AES-NI shims) with every slice an exact-size allocation"],
    miri_mem=True,
    memcheck={"quick": 640, "thorough": 8000},
    huge=[
        dict(what="hash:Groestl256", len=2 * (1 << 30) + 81),
        *MID_HASH,
        *MID_CIPHER,
        dict(what="cipher:ChaCha20", len=4 * (1 << 30) + 3, pre=27),
        dict(what="cipher:XChaCha12", len=2 * (1 << 30) + 9, pre=0),
        dict(what="cipher:ChaCha12", len=4 * (1 << 30) + 777, pre=5),
        dict(what="hash:Groestl512", len=2 * (1 << 30) + 200, pre=5, tiers=("thorough",)),
        dict(what="hash:Groestl224", len=4 * (1 << 30) + 64, tiers=("thorough",)),
        dict(what="hash:Blake256", len=2 * (1 << 30) + 81, pre=1, tiers=("thorough",)),
        dict(what="hash:Blake512", len=4 * (1 << 30) + 129, tiers=("thorough",)),
        dict(what="hash:Jh256", len=2 * (1 << 30) + 65, pre=3, tiers=("thorough",)),
        dict(what="hash:Skein512_64", len=4 * (1 << 30) + 64, tiers=("thorough",)),
        dict(what="hash:Skein256_33", len=2 * (1 << 30) + 31, pre=7, tiers=("thorough",)),
        dict(what="cipher:Ietf", len=4 * (1 << 30), pre=10, tiers=("thorough",)),
        dict(what="cipher:XChaCha8", len=4 * (1 << 30) + 70, pre=63, tiers=("thorough",)),
        dict(what="cipher:ChaCha8", len=2 * (1 << 30) + 1, pre=1, tiers=("thorough",)),
    ],
)


Q = ("quick", "thorough")
T = ("thorough",)
MiB = 1 << 20
prop(
    "C17",
    "exploration",
    "one case = one seeded run: one hash instance (33 types) and its independent reference model; 0-3 real pieces are absorbed, then the length counter - the hash's clock - "
    "is JUMPED (hook H2, same jump in the reference) to within 6 blocks of a boundary of that type (BLAKE-224/256: 2^32 bits, format limit 2^64-1 bits; BLAKE-384/512: 2^64-bit "
    "carry, 2^32 bits, 2^128-bit limit; Groestl: 2^8/2^16/2^32/2^64-3 blocks; JH: 2^32 bits, 2^32 bytes, 2^61 bytes; Skein: 2^32 bytes, 2^64 bytes; plus intermediate ones), then 1-6 more "
    "pieces are absorbed so that the boundary is crossed by update, by the padding, or not quite, and the digest is compared with the reference; after every step the counter read back "
    "through H2 must equal the true amount. Separately (no hook used to get there) boundaries are crossed FOR REAL by streaming: 512 MiB through BLAKE-224/256 and JH, "
    "2^8 and 2^16 blocks through Groestl, 4 GiB through Skein, implementation and reference in lock-step, digests of clones compared at 8 points around the boundary. "
    "distinct_nontrivial = distinct abstract states (type, nearest boundary and side, buffer empty?, jumped?, op kind)",
    [
        "the four reference hashes (BLAKE, Groestl, JH, Skein/Threefish; written from the specifications, no code shared with /repo) are validated against every KAT file of the repository and the BLAKE specification vectors before each run; a failing self-test is a harness error",
        "if an implementation already differs from the reference WITHOUT any jump (baseline), digest comparisons for that run are suspended and only the counter monitor decides (spec conformance itself is C04-C07, not claimed)",
        "jumped states are states no real stream of feasible length reaches; the thorough tier therefore also crosses the first boundary of every family for real",
        "seeded search: a clean batch is evidence, not proof",
    ],
    [
        Leg("std", "release", "counters", "C17", 150000, 2000000, max_ops=16),
        Leg("std", "checked", "counters", "C17", 150000, 2000000, max_ops=16),
        Leg("std", "dev", "counters", "C17", 6000, 100000, max_ops=16),
        Leg("portable", "checked", "counters", "C17", 0, 200000, max_ops=16),
        Leg("std-native", "release", "counters", "C17", 50000, 500000, max_ops=16),
        Leg("std-features", "checked", "counters", "C17", 50000, 500000, max_ops=16),
        # the hash-history scenario also jumps counters and feeds views of a growing buffer (non-idempotent as_ref):
        # its invariant H2 "the digest is that of ONE of the views handed out" concerns the amount counted
        Leg("std", "checked", "hash_stream", "C08", 150000, 1500000, max_ops=30),
    ],
    [REAL, STUB],
    streams=[
        ("Blake256", 512 * MiB, Q, True),
        ("Blake224", 512 * MiB, T, True),
        ("Blake256", 512 * MiB, Q, False, dict(oneshot=True)),
        ("Blake224", 512 * MiB, T, False, dict(oneshot=True)),
        ("Blake256", 512 * MiB, Q, False, dict(profile="checked")),
        ("Blake256", 512 * MiB, T, False, dict(profile="checked", oneshot=True)),
        ("Jh256", 512 * MiB, T, False, dict(oneshot=True)),
        ("Jh384", 512 * MiB, T, False, dict(profile="checked")),
        ("Skein512_64", 4096 * MiB, T, False, dict(oneshot=True)),
        ("Skein256_32", 4096 * MiB, T, False, dict(profile="checked")),
        ("Groestl256", 65536 * 64, Q, False, dict(oneshot=True)),
        ("Groestl512", 65536 * 128, T, False, dict(profile="checked", oneshot=True)),
        ("Groestl224", 256 * 64, Q, True),
        ("Groestl256", 65536 * 64, Q, True),
        ("Groestl384", 256 * 128, Q, True),
        ("Groestl512", 65536 * 128, Q, True),
        ("Groestl256", 256 * 64, T, True),
        ("Groestl512", 256 * 128, T, True),
        ("Jh256", 512 * MiB, T, True),
        ("Jh512", 512 * MiB, T, True),
        ("Jh224", 64 * MiB, Q, False),
        ("Skein256_32", 4096 * MiB, T, True),
        ("Skein512_64", 4096 * MiB, T, True),
        ("Skein1024_128", 4096 * MiB, T, True),
        ("Skein512_64", 64 * 1024, Q, True),
    ],
    selftest=True,
    # the same jumped-counter operations on hosts with another word size / byte order (Miri): a 32-bit usize must still
    # count 2^32 bits
    be_host={"quick": [(I686_TARGET, 1, "counters"), (PPC_TARGET, 1, "counters"), ("cpu:sse2", 1, "counters"), ("cpu:avx2", 1, "counters")],
             "thorough": [(I686_TARGET, 3, "counters"), (BE_TARGET, 1, "counters"), (PPC_TARGET, 2, "counters"), (ARM_TARGET, 2, "counters")] + [(c_, 2, "counters") for c_ in CPU_LEVELS]},
    # one update call of more than 2^32 bytes: the position counter inside a single call
    huge=[
        dict(what="hash:Skein512_64", len=(1 << 32) + 4096),
        dict(what="hash:Blake256", len=(1 << 29) + 64, pre=3),
        dict(what="hash:Skein256_32", len=(1 << 32) + 32, pre=31, tiers=("thorough",)),
        dict(what="hash:Skein1024_128", len=(1 << 33) + 1, tiers=("thorough",)),
        dict(what="hash:Jh256", len=(1 << 32) + 64, pre=1, tiers=("thorough",)),
        dict(what="hash:Groestl256", len=(1 << 32) + 64, pre=63, tiers=("thorough",)),
    ],
)


prop(
    "C18",
    "exploration",
    "two layers. (a) one case = one seeded run of the `interleave` world: root instances of all kinds (7 cipher types, block-API states, 33 hash types, 3 Threefish sizes incl. "
    "with_tweak and shared keys) in one thread, calls interleaved by the seeded scheduler at call granularity on a simulated host; afterwards every instance's own operations are "
    "replayed alone in a fresh world on a fresh thread and its transcript (per-instance event-log digest) must be identical; an inner check that fails only when interleaved is a violation too. "
    "(b) one case = one cold process under a controlled scheduler: one of 152 enumerated thread workloads (2-6 threads released by a barrier) - 74 first-call workloads (ALL threads make the same kind of FIRST call, "
    "the focus kind cycling over 37 operation kinds: hash types, ciphers, Threefish, block API and bulk calls of several KiB - so that threads race on whatever that call initialises lazily in a cold process; "
    "then repeats of identical calls / other entry points on private instances; in the bulk workloads the second and third thread call again while the first is still in its first call) "
    "31 hammer workloads (three threads repeat one short call ten times alternating two arguments of their own), the hammer after 246 / 65526 constructions, and 16 mix workloads "
    "(every thread on ANOTHER variant of one family: Jh x4, Groestl x4, BLAKE x4, five Skein configurations, four ChaCha variants, six Skein-1024 output lengths in long misaligned calls; thorough: two variants in 16 KiB calls; "
    "'mix hammer': six Skein-1024 / five Skein-512 output lengths and all variants of ChaCha / BLAKE / JH / Groestl / Threefish+Skein-256, six to eight short calls per thread, three rounds, two to ten preemption rates) - runs in a "
    "fresh Miri interpreter per (workload, scheduler seed, preemption rate); Miri's seeded scheduler decides every preemption, its data-race/deadlock detector is on, every result is compared with the "
    "sequential one-at-a-time expectation computed natively, and any other failure is re-run with the threads one after the other to decide whether it needs overlapping threads. distinct_nontrivial = distinct abstract states of layer (a) (kind of instance, history length class, op kind) + underlying scenarios",
    [
        "layer (b) runs lazy_static, std::sync::Once, the Groestl AES-NI path (Miri's intrinsic shims) and the algorithm bodies on the portable ppv-lite86 backend (what cfg(miri) selects) and, for about half of the interpreter runs, on the x86 backend (AVX2 machine; an overlay build of ppv-lite86 with its cfg(miri) switch turned); std's CPUID cache is answered by the interpreter from the compile-time feature set and is not raced",
        "one Miri scheduler seed = one exactly repeatable interleaving; workloads are enumerated, schedules (seed x preemption rate) are sampled: a shared value written with atomics shows only in the schedules that mix two writers (measured on a seeded change: 9 % of the schedules of the matching hammer workload)",
        "layer (a) interleaves at call granularity (a single-threaded caller cannot be preempted inside a call)",
    ],
    [
        Leg("std", "release", "interleave", "C18", 20000, 600000, max_ops=60, sharded=True),
        Leg("std", "checked", "interleave", "C18", 10000, 300000, max_ops=60, sharded=True),
        Leg("portable", "checked", "interleave", "C18", 0, 150000, max_ops=60, sharded=True),
        Leg("std-native", "release", "interleave", "C18", 0, 150000, max_ops=60, sharded=True),
        Leg("std-features", "release", "interleave", "C18", 0, 150000, max_ops=60, sharded=True),
    ],
    [REAL, STUB + "; Miri interprets the real crates (portable SIMD backend and x86 backend)"],
    miri=True,
)


# ---------------------------------------------------------------------------------------------
def run_property(pid, tier):
    spec = PROPS[pid]
    t0 = time.time()
    sd = seed()
    replay_dir = os.path.join(VERIF, "replays")
    os.makedirs(replay_dir, exist_ok=True)
    if spec.get("selftest"):
        rc, out, err = run_worker(build("std", "release"), ["selftest", "--repo", REPO])
        if rc != 0:
            log(err)
            print("HARNESS-ERROR: reference-model self-test failed (the oracle is wrong, nothing is decided)")
            return 2
    legs_out = []
    states = set()
    counters = {}
    notes = {}
    samples = []
    violations = []  # (violation json, replay path)
    known = []
    others = []
    total_runs = total_ops = 0
    harness_error = None
    enumerated = []
    acc = dict(total_runs=0, total_ops=0, states=states, counters=counters, notes=notes, samples=samples, legs_out=legs_out,
               violations=violations, known=known, others=others)

    def absorb(pid, legname, out):
        acc["total_runs"] += out["runs"]
        acc["total_ops"] += out["ops"]
        for h in out.get("state_hashes", []):
            states.add(h)
        for k, v in out["counters"].items():
            counters[k] = counters.get(k, 0) + v
        for k, v in out["notes"].items():
            notes[k] = notes.get(k, 0) + v
        if len(samples) < 3:
            samples.extend(out["samples"][:1])
        legs_out.append(
            dict(leg=legname, runs=out["runs"], ops=out["ops"], wall_ms=out["wall_ms"], digest_sum=out["digest_sum"],
                 distinct_states=out["distinct_states"], violating_runs=out["violating_runs"], timed_out=out["timed_out"],
                 dispatches_by_host_level=out.get("dispatches_by_host_level"), max_host_level=out["meta"].get("max_host_level"))
        )
        log("[%s] leg %s: %d runs, %d ops, %d states, %d violating runs, %.1fs" % (pid, legname, out["runs"], out["ops"], out["distinct_states"], out["violating_runs"], out["wall_ms"] / 1000.0))
        for f in out["found"]:
            v = f["violation"]
            if pid in v["properties"]:
                kf = open_finding_for(pid, v["signature"])
                if kf:
                    known.append((kf, f))
                else:
                    violations.append(f)
            else:
                others.append(f)

    huge_procs = start_huge(spec["huge"], tier) if spec.get("huge") else []
    for leg in spec["legs"]:
        if tier not in leg.tiers or harness_error:
            continue
        runs = leg.quick if tier == "quick" else leg.thorough
        if runs == 0:
            continue
        binary = build(leg.hb, leg.profile)
        if runs < 0:  # complete enumeration: the worker knows the size of the space
            rc, info, err = run_worker(binary, ["info"])
            if info is None:
                harness_error = "info failed"
                break
            runs = info["mem_enum_combos"]
            enumerated.append(dict(leg=leg.name(), combinations=runs, cases=runs * 192))
        args = ["run", "--scenario", leg.scenario, "--mix", leg.mix, "--seed", sd, "--runs", runs, "--threads", NCPU,
                "--max-ops", leg.max_ops, "--profile", leg.profile, "--host-build", leg.hb, "--replay-dir", replay_dir,
                "--states", "1"] + leg.extra
        if True:  # every leg runs as single-threaded worker processes over disjoint run ranges: the history of a worker
            # process is then a deterministic run sequence, so a failure that leans on earlier runs replays from its batch prefix
            args = [a for a in args]
            i = args.index("--threads")
            del args[i:i + 2]
            i = args.index("--runs")
            del args[i:i + 2]
            out, faults = run_sharded(binary, args, 0, runs, NCPU)
            seen = set()
            for ft in faults:
                f = fault_violation(pid, leg, binary, sd, ft, replay_dir)
                sig = f["violation"]["signature"]
                if sig in seen:
                    continue
                seen.add(sig)
                kf = open_finding_for(pid, sig)
                if kf:
                    known.append((kf, f))
                else:
                    violations.append(f)
            if out is None:
                if not faults:
                    harness_error = "no output from sharded workers of %s" % leg.name()
                continue
            if out.get("nondeterministic_seeds"):
                harness_error = "non-deterministic seeds: %s" % out["nondeterministic_seeds"][:5]
                break
            absorb(pid, leg.name(), out)
            continue
        rc, out, err = run_worker(binary, args)
        if out is None or rc not in (0, 1):
            log(err[-4000:])
            harness_error = "worker %s failed (rc=%s)" % (leg.name(), rc)
            if out is not None and out.get("nondeterministic_seeds"):
                harness_error += " non-deterministic seeds: %s" % out["nondeterministic_seeds"][:5]
            break
        absorb(pid, leg.name(), out)

    for cross in spec.get("cross", []):
        if harness_error:
            break
        try:
            run_cross(pid, cross, tier, sd, replay_dir, absorb, violations, known)
        except HarnessError as e:
            harness_error = str(e)
    memcheck_results = []
    if spec.get("memcheck") and not harness_error:
        try:
            run_memcheck(pid, spec["memcheck"], tier, sd, replay_dir, memcheck_results, violations, known)
        except HarnessError as e:
            harness_error = str(e)
    huge_results = []
    if spec.get("huge") and not harness_error:
        try:
            collect_huge(pid, huge_procs, replay_dir, huge_results, violations, known)
        except HarnessError as e:
            harness_error = str(e)
    blockonly_results = []
    if spec.get("blockonly") and not harness_error:
        try:
            run_blockonly(pid, tier, sd, replay_dir, blockonly_results, violations, known)
        except HarnessError as e:
            harness_error = str(e)
    stream_results = []
    if spec.get("streams") and not harness_error:
        try:
            run_streams(pid, spec["streams"], tier, sd, replay_dir, stream_results, violations, known)
        except HarnessError as e:
            harness_error = str(e)
    be_results = []
    be_total = 0
    if spec.get("be_host") and not harness_error:
        try:
            be_total = run_be_layer(pid, spec["be_host"], tier, sd, replay_dir, be_results, violations, known)
        except HarnessError as e:
            harness_error = str(e)
    mem_results = []
    mem_total = 0
    if spec.get("miri_mem") and not harness_error:
        try:
            mem_total = run_miri_mem_layer(pid, tier, sd, replay_dir, mem_results, violations, known)
        except HarnessError as e:
            harness_error = str(e)
    miri_results = []
    miri_total = 0
    if spec.get("miri") and not harness_error:
        try:
            miri_total, miri_wall = run_miri_layer(pid, tier, sd, replay_dir, miri_results, violations, known, others)
        except HarnessError as e:
            harness_error = str(e)
    total_runs, total_ops = acc["total_runs"], acc["total_ops"]
    wall = time.time() - t0
    extra = None
    if memcheck_results:
        extra = dict(memcheck_pass=memcheck_results)
    if huge_results:
        extra = dict(extra or {}, huge_single_calls=huge_results)
        total_runs += len(huge_results)
    if blockonly_results:
        extra = dict(extra or {}, builds_without_the_cipher_front_end=blockonly_results)
        total_runs += len(blockonly_results)
    if be_results:
        extra = dict(extra or {}, interpreted_hosts=be_results)
        total_runs += len(be_results)
    if stream_results:
        extra = dict(extra or {}, streamed_for_real=stream_results)
        total_runs += len(stream_results)
    if spec.get("miri"):
        extra = dict(extra or {}, miri_thread_layer=dict(cold_process_runs=miri_total, each_run="a fresh Miri interpreter (cold process: lazy_static tables, std feature cache and every Once uninitialised) for one enumerated workload; 2-4 threads released by a barrier; every preemption decided by Miri's seeded scheduler; data-race and deadlock detection on",
                                          workloads=miri_results))
        total_runs += miri_total
    if enumerated:
        extra = dict(extra or {}, miri_exact_allocation_pass=mem_results, enumerated_completely=enumerated, exhaustive=True,
                     exhaustive_scope="placement x start alignment/length residue (3 x 64) for every (operation kind, prefix class, length class, host level) combination; data contents are sampled")
    return finish(pid, tier, sd, spec, wall, total_runs, total_ops, states, counters, notes, samples, legs_out, violations, known, others, harness_error, extra)


MIRI_RUSTFLAGS = BASE_RUSTFLAGS + " -C target-feature=+ssse3,+aes"


def miri_dirs():
    tag = "miri" + repo_tag()
    bdir = os.path.join(VERIF, "build", tag)
    os.makedirs(os.path.join(bdir, ".cargo"), exist_ok=True)
    tmpl = open(os.path.join(VERIF, "mirithreads", "Cargo.toml.in")).read()
    manifest = tmpl.replace("@REPO@", REPO).replace("@MT@", os.path.join(VERIF, "mirithreads"))
    mpath = os.path.join(bdir, "Cargo.toml")
    if not os.path.exists(mpath) or open(mpath).read() != manifest:
        open(mpath, "w").write(manifest)
    if not os.path.exists(os.path.join(bdir, "Cargo.lock")):
        shutil.copy(os.path.join(VERIF, "sim", "Cargo.lock.seed"), os.path.join(bdir, "Cargo.lock"))
    open(os.path.join(bdir, ".cargo", "config.toml"), "w").write("[net]\noffline = true\n")
    return bdir, mpath, tag


X86_THREADS_FLAGS = "-C target-feature=+sse3,+ssse3,+sse4.1,+sse4.2,+avx,+avx2,+aes"


def miri_x86_dirs():
    """the thread / memory workload built against the overlay copy of ppv-lite86 (x86 backend under Miri, see x86miri_dirs)"""
    with X86MIRI_LOCK:
        if "dirs" not in X86MIRI_READY:
            X86MIRI_READY["dirs"] = x86miri_dirs()
        if "mt" not in X86MIRI_READY:
            ov = os.path.join(X86MIRI_READY["dirs"][0], "ppv-lite86")
            tag = "mirix86" + repo_tag()
            bdir = os.path.join(VERIF, "build", tag)
            os.makedirs(os.path.join(bdir, ".cargo"), exist_ok=True)
            tmpl = open(os.path.join(VERIF, "mirithreads", "Cargo.toml.in")).read()
            manifest = tmpl.replace("@REPO@/utils-simd/ppv-lite86", ov).replace("@REPO@", REPO).replace("@MT@", os.path.join(VERIF, "mirithreads"))
            mpath = os.path.join(bdir, "Cargo.toml")
            if not os.path.exists(mpath) or open(mpath).read() != manifest:
                open(mpath, "w").write(manifest)
            if not os.path.exists(os.path.join(bdir, "Cargo.lock")):
                shutil.copy(os.path.join(VERIF, "sim", "Cargo.lock.seed"), os.path.join(bdir, "Cargo.lock"))
            open(os.path.join(bdir, ".cargo", "config.toml"), "w").write("[net]\noffline = true\n")
            X86MIRI_READY["mt"] = (bdir, mpath, tag)
    return X86MIRI_READY["mt"]


def miri_native():
    """native build of the thread workload: computes the sequential (one-at-a-time) expectations"""
    bdir, mpath, tag = miri_dirs()
    env = dict(os.environ)
    env["RUSTFLAGS"] = BASE_RUSTFLAGS
    env["CARGO_NET_OFFLINE"] = "true"
    env["CARGO_TARGET_DIR"] = os.path.join(VERIF, "target", tag + "-native")
    p = subprocess.run(["cargo", "build", "--offline", "--quiet", "--manifest-path", mpath], env=env, cwd=bdir, stdout=subprocess.PIPE, stderr=subprocess.STDOUT, text=True)
    if p.returncode != 0:
        log(p.stdout[-4000:])
        raise HarnessError("native build of mirithreads failed")
    return os.path.join(VERIF, "target", tag + "-native", "debug", "mirithreads")


def miri_run(base, nw, table, seed_lo, seed_hi, rate, idx=None, seq=False, rounds=1, timeout=None, warmup=None, x86=False, plan=None, exp=None):
    """run the thread workload under Miri for scheduler seeds [seed_lo, seed_hi); returns (rc, output).
    Each seed is a fresh interpreter (a cold process); the seed also selects which of the `nw` workloads runs."""
    bdir, mpath, tag = miri_x86_dirs() if x86 else miri_dirs()
    env = dict(os.environ)
    env["RUSTFLAGS"] = (BASE_RUSTFLAGS + " --cfg cryptocorrosion_verif_x86_miri " + X86_THREADS_FLAGS) if x86 else MIRI_RUSTFLAGS
    env["CARGO_NET_OFFLINE"] = "true"
    env["CARGO_TARGET_DIR"] = os.path.join(VERIF, "target", tag)
    if seed_hi - seed_lo == 1:
        env["MIRIFLAGS"] = "-Zmiri-seed=%d -Zmiri-preemption-rate=%s" % (seed_lo, rate)
    else:
        env["MIRIFLAGS"] = "-Zmiri-many-seeds=%d..%d -Zmiri-preemption-rate=%s" % (seed_lo, seed_hi, rate)
    cmd = ["cargo", "+nightly", "miri", "run", "--offline", "--quiet", "--manifest-path", mpath, "--", "run", str(base), str(nw), table]
    if idx is not None:
        cmd.append(str(idx))
        cmd.append("seq" if seq else "par")
        cmd.append(str(rounds))
        if warmup:
            cmd.append(str(warmup))
        if plan is not None:
            cmd += ["plan=" + plan, "exp=" + exp]
    try:
        p = subprocess.run(cmd, env=env, cwd=bdir, stdout=subprocess.PIPE, stderr=subprocess.STDOUT, text=True, timeout=timeout, start_new_session=True)
    except subprocess.TimeoutExpired as e:
        return 124, (e.stdout or b"").decode(errors="replace") if isinstance(e.stdout, bytes) else (e.stdout or "")
    return p.returncode, p.stdout


def classify_miri(out):
    if "Data race detected" in out:
        return "data race"
    if "deadlock" in out:
        return "deadlock"
    if "MISMATCH" in out:
        return "result differs from the sequential expectation"
    if "panicked" in out:
        return "panic"
    if "Undefined Behavior" in out:
        return "undefined behaviour (not a race)"
    return "abnormal exit"


NW_BASE = 74 + 31
NW_MIX_FROM = NW_BASE + 31
NMIX = 16
MIX_THOROUGH = (6, 7, 8)   # two variants in 16 KiB calls: minutes of interpreter time each
MIX_HAMMER = (9, 10, 11, 12, 13, 14, 15)   # several output lengths of one Skein state size / all variants of one family (ChaCha, BLAKE, JH, Groestl, Threefish+Skein-256), six to eight short calls per thread
NW = NW_MIX_FROM + NMIX   # 2 x 37 first-call workloads + 31 "hammer" workloads + 31 "wrap" workloads (hammer after 65526 constructions) + 16 "mix" workloads (every thread another variant of one family, long calls)


def be_dirs():
    tag = "miribe" + repo_tag()
    bdir = os.path.join(VERIF, "build", tag)
    os.makedirs(os.path.join(bdir, ".cargo"), exist_ok=True)
    tmpl = open(os.path.join(VERIF, "miribe", "Cargo.toml.in")).read()
    manifest = tmpl.replace("@REPO@", REPO).replace("@BE@", os.path.join(VERIF, "miribe"))
    mpath = os.path.join(bdir, "Cargo.toml")
    if not os.path.exists(mpath) or open(mpath).read() != manifest:
        open(mpath, "w").write(manifest)
    if not os.path.exists(os.path.join(bdir, "Cargo.lock")):
        shutil.copy(os.path.join(VERIF, "sim", "Cargo.lock.seed"), os.path.join(bdir, "Cargo.lock"))
    open(os.path.join(bdir, ".cargo", "config.toml"), "w").write("[net]\noffline = true\n")
    return bdir, mpath, tag


# Simulated CPU generations: the x86-64 build (ppv-lite86's x86 backend, run-time detection as shipped) interpreted by Miri with
# exactly the listed instruction-set extensions. The interpreter answers feature detection with that set and refuses ("calling a
# function that requires unavailable target features") any instruction of an extension the simulated CPU lacks - what a real CPU of
# that generation does with SIGILL. ppv-lite86 compiles its portable backend under cfg(miri); the check builds a copy of that
# one crate from /repo's working tree with the four `miri` conditions of src/lib.rs switched by --cfg cryptocorrosion_verif_x86_miri
# (an overlay in /verif/build, nothing in /repo changes).


def x86miri_dirs():
    tag = "x86miri" + repo_tag()
    bdir = os.path.join(VERIF, "build", tag)
    os.makedirs(os.path.join(bdir, ".cargo"), exist_ok=True)
    # overlay copy of ppv-lite86 from REPO's working tree
    src = os.path.join(REPO, "utils-simd", "ppv-lite86")
    ov = os.path.join(bdir, "ppv-lite86")
    if os.path.isdir(ov):
        shutil.rmtree(ov)
    shutil.copytree(src, ov, ignore=shutil.ignore_patterns("target"))
    libp = os.path.join(ov, "src", "lib.rs")
    text = open(libp).read()
    if text.count("    not(miri)\n") != 2 or text.count("    miri,\n") != 2:
        raise HarnessError("ppv-lite86/src/lib.rs no longer has the four cfg(miri) conditions the x86-under-Miri overlay switches")
    text = text.replace("    not(miri)\n", "    any(not(miri), cryptocorrosion_verif_x86_miri)\n").replace("    miri,\n", "    all(miri, not(cryptocorrosion_verif_x86_miri)),\n")
    open(libp, "w").write(text)
    tmpl = open(os.path.join(VERIF, "miribe", "Cargo.toml.in")).read()
    manifest = tmpl.replace("@REPO@/utils-simd/ppv-lite86", ov).replace("@REPO@", REPO).replace("@BE@", os.path.join(VERIF, "miribe"))
    mpath = os.path.join(bdir, "Cargo.toml")
    if not os.path.exists(mpath) or open(mpath).read() != manifest:
        open(mpath, "w").write(manifest)
    if not os.path.exists(os.path.join(bdir, "Cargo.lock")):
        shutil.copy(os.path.join(VERIF, "sim", "Cargo.lock.seed"), os.path.join(bdir, "Cargo.lock"))
    open(os.path.join(bdir, ".cargo", "config.toml"), "w").write("[net]\noffline = true\n")
    return bdir, mpath, tag


X86MIRI_LOCK = __import__("threading").Lock()
X86MIRI_READY = {}


HOST_DESCR = {BE_TARGET: "big-endian 64-bit host (s390x build interpreted by Miri)", I686_TARGET: "32-bit host (i686 build interpreted by Miri: usize is 32 bits)",
              PPC_TARGET: "big-endian 32-bit host (powerpc build interpreted by Miri)", ARM_TARGET: "32-bit ARM host (arm build interpreted by Miri)",
              A64_TARGET: "AArch64 host (aarch64 build interpreted by Miri)"}
for _lvl in CPU_LEVELS:
    HOST_DESCR[_lvl] = "simulated x86-64 CPU with %s and nothing newer (x86 backend interpreted by Miri)" % (_lvl.split(":")[1].upper())
HOST_NAME = {BE_TARGET: "big-endian host", I686_TARGET: "32-bit host", PPC_TARGET: "big-endian 32-bit host", ARM_TARGET: "32-bit ARM host", A64_TARGET: "AArch64 host"}
for _lvl in CPU_LEVELS:
    HOST_NAME[_lvl] = "simulated CPU generation %s" % _lvl.split(":")[1]


def be_sysroot(target=BE_TARGET):
    """Miri sysroot for a foreign target, built once from rust-src (offline)."""
    sysroot = os.path.join(VERIF, "target", "miri-sysroot-" + target.split("-")[0])
    if not os.path.isdir(os.path.join(sysroot, "lib", "rustlib", target)):
        env = dict(os.environ, CARGO_NET_OFFLINE="true", MIRI_SYSROOT=sysroot)
        env.pop("RUSTFLAGS", None)
        p = subprocess.run(["cargo", "+nightly", "miri", "setup", "--target", target], env=env, cwd=VERIF, stdout=subprocess.PIPE, stderr=subprocess.STDOUT, text=True)
        if p.returncode != 0:
            log(p.stdout[-3000:])
            raise HarnessError("could not build the Miri sysroot for " + target)
    return sysroot


def be_run(seed_, scale, sections, big, target=BE_TARGET):
    bdir, mpath, tag = be_dirs()
    env = dict(os.environ)
    env["RUSTFLAGS"] = BASE_RUSTFLAGS
    env["CARGO_NET_OFFLINE"] = "true"
    if big and target in CPU_LEVELS:
        with X86MIRI_LOCK:
            if "dirs" not in X86MIRI_READY:
                X86MIRI_READY["dirs"] = x86miri_dirs()
        bdir, mpath, tag = X86MIRI_READY["dirs"]
        env["RUSTFLAGS"] = (BASE_RUSTFLAGS + " --cfg cryptocorrosion_verif_x86_miri " + CPU_LEVELS[target]).strip()
        env["CARGO_TARGET_DIR"] = os.path.join(VERIF, "target", tag + "-" + target.split(":")[1])
        cmd = ["cargo", "+nightly", "miri", "run", "--offline", "--quiet", "--manifest-path", mpath, "--", str(seed_), str(scale), sections]
    elif big:
        env["MIRI_SYSROOT"] = be_sysroot(target)
        env["CARGO_TARGET_DIR"] = os.path.join(VERIF, "target", tag + "-" + target.split("-")[0])
        cmd = ["cargo", "+nightly", "miri", "run", "--offline", "--quiet", "--target", target, "--manifest-path", mpath, "--", str(seed_), str(scale), sections]
    else:
        env["CARGO_TARGET_DIR"] = os.path.join(VERIF, "target", tag + "-native")
        cmd = ["cargo", "run", "--offline", "--quiet", "--manifest-path", mpath, "--", str(seed_), str(scale), sections]
    p = subprocess.run(cmd, env=env, cwd=bdir, stdout=subprocess.PIPE, stderr=subprocess.PIPE, text=True)
    return p.returncode, p.stdout, p.stderr


def run_be_layer(pid, spec_be, tier, sd, replay_dir, results, violations, known):
    """The big-endian simulated host: the same seeded operation list natively (little-endian x86-64) and under Miri
    interpreting an s390x build; transcripts must be identical; the refill4 = 4 x refill assertions run on the host itself."""
    entry = spec_be[tier]
    if isinstance(entry, list):
        from concurrent.futures import ThreadPoolExecutor
        with ThreadPoolExecutor(max_workers=len(entry)) as ex:  # one interpreter process per foreign host, side by side
            ns = list(ex.map(lambda e: run_be_layer(pid, {tier: (e[1], e[2], e[0])}, tier, sd, replay_dir, results, violations, known), entry))
        return sum(ns)
    target = entry[2] if len(entry) > 2 else BE_TARGET
    scale, sections = entry[0], entry[1]
    if not sections:
        return 0
    hostname = HOST_NAME[target]
    t0 = time.time()
    rc_le, out_le, err_le = be_run(sd, scale, sections, False)
    if rc_le != 0:
        # the twin is the same operation list on the native host: it passes on the unchanged tree, so a failure here is
        # the library failing natively (e.g. a panic in an in-contract call), reported as such
        tail = "\n".join(l for l in err_le.splitlines() if l.strip())[-900:]
        if "panicked" not in err_le and "error" in err_le and "could not compile" in err_le:
            log(err_le[-2000:])
            raise HarnessError("the native twin of the %s does not build" % hostname)
        sig = "native twin of the foreign-host program fails:%s" % ("panic" if "panicked" in err_le else "abnormal exit")
        f = dict(kind="miri_be", verif_seed=sd, scale=scale, sections=sections, target=target, ops=[], minimised_from=0,
                 violation=dict(properties=[pid], invariant="B0", signature=sig, at_op=0, detail="the operation list (%s) fails on the native host: %s" % (sections, tail)))
        path = os.path.join(replay_dir, "%s-twin-%s.json" % (pid, hashlib.sha1((sig + sections).encode()).hexdigest()[:8]))
        json.dump(f, open(path, "w"))
        f["replay"] = path
        kf = open_finding_for(pid, sig)
        if kf:
            known.append((kf, f))
        else:
            violations.append(f)
        results.append(dict(host=HOST_DESCR[target], sections=sections, scale=scale, native_twin_failed=True))
        return 0
    rc_be, out_be, err_be = be_run(sd, scale, sections, True, target)
    le = [l for l in out_le.splitlines() if l.startswith("T ")]
    be = [l for l in out_be.splitlines() if l.startswith("T ")]
    endian = [l for l in out_be.splitlines() if l.startswith("ENDIAN")]
    if endian != [("ENDIAN big" if target in BIG_ENDIAN_TARGETS else "ENDIAN little")]:
        log(err_be[-2000:])
        raise HarnessError("the %s did not start (%s)" % (hostname, endian))
    diffs = {}
    for i, l in enumerate(le):
        name = l.split()[2]
        if i >= len(be):
            break
        if be[i] != l:
            diffs.setdefault(name, []).append(i)
    failed = rc_be != 0
    results.append(dict(host=HOST_DESCR[target], sections=sections, scale=scale, operations=len(le), operations_completed_on_host=len(be),
                        differing_operation_kinds=sorted(diffs), host_failed=failed, wall_s=round(time.time() - t0, 1)))
    log("[%s] %s: %d operations (%s), differing kinds %s, %s" % (pid, hostname, len(le), sections, sorted(diffs), "FAILED" if failed else "completed"))
    found = []
    if failed:
        tail = "\n".join(l for l in err_be.splitlines() if l.strip())[-1200:]
        what = ("an instruction of an extension this CPU lacks" if "unavailable target features" in err_be else "refill4 differs from four refills" if "refill4" in err_be
                else "panic" if "panicked" in err_be else "undefined behaviour" if "Undefined Behavior" in err_be else "abnormal exit")
        headline = next((l.strip() for l in err_be.splitlines() if l.startswith("error:") or "panicked at" in l), "")
        found.append(("%s fails:%s" % (hostname, what), "after %d of %d operations: %s ... %s" % (len(be), len(le), headline[:300], tail[-700:])))
    # a program of vector operations is a chain (every step reads the registers the earlier ones wrote): only its first
    # differing step is a finding, what follows is its consequence
    chain_first = {}
    for name, idx in diffs.items():
        if name.startswith("vecops"):
            fam0 = name.split(".")[0]
            if fam0 not in chain_first or idx[0] < chain_first[fam0][1][0]:
                chain_first[fam0] = (name, idx)
    for name, idx in sorted(diffs.items()):
        if name.startswith("vecops") and chain_first[name.split(".")[0]][0] != name:
            continue
        fam = "jh" if name.startswith("jh") else name
        found.append(("%s differs:%s" % (hostname, fam), "%d operations of kind %s give other results than on the little-endian hosts (first: line %d: LE %s / BE %s)" % (len(idx), name, idx[0], le[idx[0]].split()[3], be[idx[0]].split()[3])))
    seen = set()
    for sig, detail in found:
        if sig in seen:
            continue
        seen.add(sig)
        f = dict(kind="miri_be", verif_seed=sd, scale=scale, sections=sections, target=target, ops=[], minimised_from=len(le),
                 violation=dict(properties=[pid], invariant="B1", signature=sig, at_op=0, detail=detail))
        path = os.path.join(replay_dir, "%s-%s-%s.json" % (pid, "be" if target == BE_TARGET else target.replace(":", "_").split("-")[0], hashlib.sha1(sig.encode()).hexdigest()[:8]))
        json.dump(f, open(path, "w"))
        f["replay"] = path
        kf = open_finding_for(pid, sig)
        if kf:
            known.append((kf, f))
        else:
            violations.append(f)
    return len(le)


def miri_mem_run(base, parts, seed_lo, seed_hi, part=None, x86=False):
    bdir, mpath, tag = miri_x86_dirs() if x86 else miri_dirs()
    env = dict(os.environ)
    env["RUSTFLAGS"] = (BASE_RUSTFLAGS + " --cfg cryptocorrosion_verif_x86_miri " + X86_THREADS_FLAGS) if x86 else MIRI_RUSTFLAGS
    env["CARGO_NET_OFFLINE"] = "true"
    env["CARGO_TARGET_DIR"] = os.path.join(VERIF, "target", tag)
    flags = "-Zmiri-symbolic-alignment-check"
    if seed_hi - seed_lo == 1:
        env["MIRIFLAGS"] = "-Zmiri-seed=%d %s" % (seed_lo, flags)
    else:
        env["MIRIFLAGS"] = "-Zmiri-many-seeds=%d..%d %s" % (seed_lo, seed_hi, flags)
    cmd = ["cargo", "+nightly", "miri", "run", "--offline", "--quiet", "--manifest-path", mpath, "--", "mem", str(base), str(parts)]
    if part is not None:
        cmd.append(str(part))
    p = subprocess.run(cmd, env=env, cwd=bdir, stdout=subprocess.PIPE, stderr=subprocess.STDOUT, text=True)
    return p.returncode, p.stdout


def run_miri_mem_layer(pid, tier, sd, replay_dir, results, violations, known):
    """both variants of the exact-allocation pass: the portable backend (as cfg(miri) builds it) and the x86 backend (AVX2 machine)"""
    n = run_miri_mem_variant(pid, tier, sd, replay_dir, results, violations, known, False)
    n += run_miri_mem_variant(pid, tier, sd, replay_dir, results, violations, known, True)
    return n


def run_miri_mem_variant(pid, tier, sd, replay_dir, results, violations, known, x86):
    """S5 second pass: every slice argument is an exact-size allocation of its own; Miri's byte-granular bounds and
    alignment checking sees what guard pages cannot (an out-of-slice read, or write of the same value, inside a mapped page)."""
    import re
    base = (sd * 2654435761) & 0xFFFFFFFF
    parts, nseeds = (8, 16) if tier == "quick" else (4, 32)
    lo = (sd * 104729) % 100000
    t0 = time.time()
    rc, out = miri_mem_run(base, parts, lo, lo + nseeds, x86=x86)
    covered = sorted(set(int(m.group(1)) for m in re.finditer(r"MEM part=(\d+) of", out)))
    results.append(dict(backend="x86 (overlay build, AVX2 machine, AES-NI)" if x86 else "portable (cfg(miri)), Groestl on AES-NI shims", base_seed=base, parts=parts, parts_covered=covered, miri_seeds=[lo, lo + nseeds], operations_in_list=77 + 144 + 2, ok=(rc == 0), wall_s=round(time.time() - t0, 1),
                        flags="-Zmiri-symbolic-alignment-check", what="apply_keystream x7 ciphers (11 prefix/length pairs), update + finalize_into x16 hash types (9 pairs), Threefish x3, block-API refill/refill4; every key, nonce, message, block and output is an exact-size allocation of its own"))
    log("[%s] miri memory pass (%s backend): seeds %d..%d, parts covered %s of %d: %s" % (pid, "x86" if x86 else "portable", lo, lo + nseeds, covered, parts, "ok" if rc == 0 else "FAILED"))
    if rc == 0:
        return nseeds
    failing = None
    for s_ in range(lo, lo + nseeds):
        rc1, out1 = miri_mem_run(base, parts, s_, s_ + 1, x86=x86)
        if rc1 != 0:
            failing = (s_, out1)
            break
    if failing is None:
        raise HarnessError("Miri memory-pass failure did not reproduce with a single seed:\n" + out[-2000:])
    s_, out1 = failing
    if "out-of-bounds" in out1 or "dangling" in out1 or "alloc" in out1 and "Undefined Behavior" in out1:
        what = "access outside the caller's slice"
    elif "alignment" in out1:
        what = "misaligned access"
    elif "panicked" in out1:
        what = "panic"
    else:
        what = "undefined behaviour"
    tail = "\n".join(l for l in out1.splitlines() if l.strip())[-1800:]
    sig = "exact-size allocations under Miri:%s%s" % (what, ":x86 backend" if x86 else "")
    f = dict(kind="miri_mem", base_seed=base, parts=parts, miri_seed=s_, x86=x86, ops=[], minimised_from=1,
             violation=dict(properties=[pid], invariant="M3", signature=sig, at_op=0, detail="Miri seed %d: %s\n%s" % (s_, what, tail)))
    path = os.path.join(replay_dir, "%s-mirimem%s-%d-%d.json" % (pid, "x86" if x86 else "", base, s_))
    json.dump(f, open(path, "w"))
    f["replay"] = path
    kf = open_finding_for(pid, sig)
    if kf:
        known.append((kf, f))
    else:
        violations.append(f)
    return nseeds


def miri_jobs(tier, sd):
    """(workload index, Miri scheduler seed, preemption rate): every workload at least once - which calls initialise or share
    something is what a regression changes, so coverage of the first-call kinds is enumerated, not drawn - and the workloads of
    long single calls (bulk paths) under several seeds and rates."""
    lo = (sd * 7919) % 100000
    jobs = []
    rates = ["0.1"] if tier == "quick" else ["0.01", "0.1", "0.4"]
    reps = 1 if tier == "quick" else 3
    for ri, rate in enumerate(rates):
        for rep in range(reps):
            for w in range(NW_BASE):
                jobs.append((w, lo + (ri * reps + rep) * 1009 + w, rate))
    long_w = [w for w in range(2 * MIRI_NOPS) if w % MIRI_NOPS >= MIRI_LONG_FROM]
    extra = [("0.01", 1), ("0.3", 2)] if tier == "quick" else [("0.02", 1), ("0.05", 2), ("0.2", 3), ("0.3", 4), ("0.5", 5), ("0.7", 6)]
    for rate, k in extra:
        for w in long_w:
            if tier == "quick" and w >= MIRI_NOPS and k == 1:
                continue  # the six-thread bulk workloads: two schedules in quick
            jobs.append((w, lo + 50000 + k * 1009 + w, rate))
    # the cheap "hammer" workloads (short cipher / BLAKE calls repeated by three threads) under more schedules: a shared value
    # that is written with atomics is no data race for the interpreter - only a schedule that mixes two writers shows it
    cheap = [2 * MIRI_NOPS + k for k in (5, 7, 8, 10, 15, 19, 20, 21, 22, 23, 24, 26, 30)]
    hrates = [("0.03", 11), ("0.3", 12), ("0.5", 13)] if tier == "quick" else [("0.02", 11), ("0.05", 12), ("0.2", 13), ("0.3", 14), ("0.5", 15), ("0.7", 16), ("0.9", 17), ("0.15", 18)]
    hrounds = 5 if tier == "quick" else 10
    jobs = [(w, s_, rate, 1, None) for (w, s_, rate) in jobs]
    for rate, k in hrates:
        for w in cheap:
            jobs.append((w, lo + 50000 + k * 1009 + w, rate, hrounds, None))
    # "wrap" workloads: the hammer after 246 constructions of the type on the main thread (an 8-bit use counter wraps during the
    # hammer); thorough also after 65526 constructions (a 16-bit counter) for the kinds whose constructor the interpreter runs
    # 65526 times within about twenty minutes
    wrap_kinds = (5, 7, 8, 10, 15, 19, 20, 21, 22, 23, 24, 26, 30) if tier == "quick" else tuple(range(31))
    for k in wrap_kinds:
        jobs.append((NW_BASE + k, lo + 70000 + k, "0.1", 1, None))
        if tier != "quick":
            jobs.append((NW_BASE + k, lo + 71000 + k, "0.4", 1, None))
    if tier != "quick":
        for k in WRAP16_KINDS:
            jobs.append((NW_BASE + k, lo + 72000 + k, "0.2", 1, 65526))
    # "mix" workloads: every thread makes one long misaligned call on ANOTHER variant of the same family (Jh224|Jh256|Jh384|Jh512,
    # Groestl x4, BLAKE x4, five Skein configurations, four ChaCha variants, six Skein-1024 output lengths) - what the variants of
    # one crate share per process is used by all of them at once; thorough adds two variants in 16 KiB calls (JH, Groestl, BLAKE).
    # Both backends (the seed's parity selects the build).
    for k in range(NMIX):
        if k in MIX_THOROUGH and tier == "quick":
            continue
        if k in MIX_HAMMER:
            # atomics only show in a schedule that mixes a reader with a recycling writer: several rates, three rounds each
            mrates = (["0.2", "0.4", "0.6", "0.8"] if k < 11 else ["0.1", "0.5"]) if tier == "quick" else ["0.05", "0.1", "0.2", "0.3", "0.4", "0.5", "0.6", "0.7", "0.8", "0.9"]
        else:
            mrates = ["0.1", "0.3"] if tier == "quick" or k in MIX_THOROUGH else ["0.02", "0.1", "0.3", "0.6"]
        for rep, rate in enumerate(mrates):
            jobs.append((NW_MIX_FROM + k, lo + 80000 + 2 * (k * 11 + rep) + rep % 2, rate, 3 if k in MIX_HAMMER else 1, None))
    # which build runs a job: the portable backend (what cfg(miri) selects) or the x86 backend (overlay, AVX2 machine): the second
    # copy of the first-call workloads, every other hammer schedule and the wrap workloads run the x86 backend
    jobs = [j + ((MIRI_NOPS <= j[0] < 2 * MIRI_NOPS) or (j[0] >= 2 * MIRI_NOPS and j[1] % 2 == 1),) for j in jobs]
    jobs.sort(key=lambda j: -(miri_cost_hint(j[0]) * (1 + j[3]) / 2 + (WRAP16_COST.get(j[0] - NW_BASE, 600) if j[4] else 0)))  # longest first: a short tail for the pool
    return jobs


MIRI_NOPS = 37
MIRI_LONG_FROM = 31
# measured interpreter seconds of the "hammer" workloads per operation kind (only used to order the job pool)
HAMMER_COST = [8, 15, 8, 15, 33, 6, 8, 6, 5, 7, 4, 10, 20, 34, 10, 6, 11, 35, 34, 3, 5, 4, 4, 7, 5, 11, 8, 13, 23, 14, 7]


# operation kinds whose constructor runs 65526 times under the interpreter in roughly this many seconds (measured under load)
WRAP16_COST = {0: 670, 1: 1200, 2: 660, 3: 1100, 4: 440, 5: 530, 6: 1030, 7: 160, 8: 170, 10: 650, 13: 490, 15: 510, 16: 1000, 17: 480, 18: 460, 19: 140, 20: 170,
               24: 990, 26: 140, 29: 710, 30: 550}
WRAP16_KINDS = tuple(sorted(WRAP16_COST))


MIX_COST = [110, 150, 40, 60, 40, 40, 300, 900, 300, 60, 40, 15, 20, 60, 40, 40]


def miri_cost_hint(w):
    if w >= NW_MIX_FROM:
        return MIX_COST[w - NW_MIX_FROM]
    if w >= NW_BASE:
        return HAMMER_COST[(w - NW_BASE) % 31] * 1.3
    if w >= 2 * MIRI_NOPS:
        return HAMMER_COST[(w - 2 * MIRI_NOPS) % 31]
    k = w % MIRI_NOPS
    return 30 if k >= MIRI_LONG_FROM else 12 if k in (4, 13, 17, 18) else 4



def minimise_miri_plan(native, base, w, s_, rate, nr, wu, x86, what):
    """Shrink the failing workload: fewer threads, fewer calls per thread - as long as the same interpreter seed and preemption
    rate still end in the same kind of failure (the schedule of a smaller workload is another schedule of the same generator; a
    candidate that no longer fails is simply not taken). Returns (plan string, expectations, calls before, calls after, runs used)."""
    plan = subprocess.run([native, "planraw", str(base), str(NW), str(w)], stdout=subprocess.PIPE, text=True).stdout.strip()
    threads = [t.split(",") for t in plan.split("|") if t]
    before = sum(len(t) for t in threads)
    used = 0

    def fails(cand):
        ps = "|".join(",".join(t) for t in cand)
        ex = subprocess.run([native, "expectplan", str(base), str(NW), ps], stdout=subprocess.PIPE, text=True).stdout.strip()
        rc, out = miri_run(base, NW, "", s_, s_ + 1, rate, w, rounds=nr, warmup=wu, x86=x86, plan=ps, exp=ex, timeout=1500)
        return rc not in (0, 124) and classify_miri(out) == what, ps, ex

    best = None
    progress = True
    budget = 2 if wu and wu > 1000 else 8   # a 65526-construction warm-up costs the interpreter many minutes per candidate
    while progress and used < budget:
        progress = False
        cands = []
        if any(len(t) > 1 for t in threads):
            cands.append([t[:1] for t in threads])                       # only the first call of every thread
            cands.append([t[:max(1, len(t) // 2)] for t in threads])     # half of every thread's calls
        if len(threads) > 2:
            for k in range(len(threads)):
                cands.append(threads[:k] + threads[k + 1:])               # one thread less
        for cand in cands:
            if used >= budget:
                break
            if sum(len(t) for t in cand) >= sum(len(t) for t in threads):
                continue
            used += 1
            ok, ps, ex = fails(cand)
            if ok:
                threads, best, progress = cand, (ps, ex), True
                break
    if best is None:
        return None
    return best[0], best[1], before, sum(len(t) for t in threads), used


def run_miri_layer(pid, tier, sd, replay_dir, results, violations, known, others):
    """S7b: threads from a cold process; every thread switch decided by Miri's seeded scheduler. One interpreter process
    per (workload, scheduler seed), 16 at a time."""
    import re
    from concurrent.futures import ThreadPoolExecutor
    native = miri_native()
    base = (sd * 1000003) & 0xFFFFFFFF
    table = subprocess.run([native, "expected", str(base), str(NW)], stdout=subprocess.PIPE, text=True).stdout.strip()
    plans = subprocess.run([native, "plan", str(base), str(NW)], stdout=subprocess.PIPE, text=True).stdout.strip().splitlines()
    jobs = miri_jobs(tier, sd)
    t0 = time.time()
    # the first job also builds the interpreter's copy of the program
    # a cheap run first: it builds the interpreter's copy of the program (its result is not used)
    miri_run(base, NW, table, 1, 2, "0.1", 2 * MIRI_NOPS + 19)
    miri_run(base, NW, table, 1, 2, "0.1", 2 * MIRI_NOPS + 19, x86=True)
    with ThreadPoolExecutor(max_workers=NCPU) as ex:
        outs = list(ex.map(lambda j: miri_run(base, NW, table, j[1], j[1] + 1, j[2], j[0], rounds=j[3], warmup=j[4], x86=j[5]), jobs))
    picked = {}
    per_rate = {}
    failed = []
    orders = set()
    rounds_total = 0
    nx86 = 0
    for (w, s_, rate, nr, wu, x86), (rc, out) in zip(jobs, outs):
        nx86 += 1 if x86 else 0
        rounds_total += nr
        m = re.search(r"WORKLOAD (\d+) threads=(\d+) first=(\w+)", out)
        if m:
            picked[m.group(3)] = picked.get(m.group(3), 0) + 1
        per_rate[rate] = per_rate.get(rate, 0) + 1
        mo = re.search(r"^ORDER (.*)$", out, re.M)
        if mo:
            for o in mo.group(1).split(" ;; "):
                orders.add((w, o))
        if rc != 0:
            failed.append((w, s_, rate, nr, wu, x86, out))
    total = len(jobs)
    results.append(dict(base_seed=base, workloads=NW, workloads_run=len(set(j[0] for j in jobs)), interpreter_runs=total, runs_on_the_x86_backend=nx86, thread_rounds=rounds_total, runs_per_preemption_rate=per_rate,
                        distinct_interleavings=dict(measure="distinct (workload, global completion order of the threads' calls) pairs", count=len(orders)), first_call_kinds_raced=picked,
                        failed_runs=len(failed), wall_s=round(time.time() - t0, 1)))
    log("[%s] miri: %d interpreter runs (%d of the %d workloads, rates %s): %d failed; first-call kinds raced: %s" % (pid, total, len(set(j[0] for j in jobs)), NW, per_rate, len(failed), picked))
    seen_sig = set()
    for (w, s_, rate, nr, wu, x86, out1) in failed:
        if "WORKLOAD" not in out1 and "error: could not compile" in out1:
            log(out1[-3000:])
            raise HarnessError("the thread workload does not build for the interpreter")
        what = classify_miri(out1)
        needs_overlap = None
        if what not in ("data race", "deadlock"):
            # the same threads one after the other in the same interpreter configuration: does the failure need them to overlap?
            rc2, out2 = miri_run(base, NW, table, s_, s_ + 1, rate, w, seq=True, rounds=nr, warmup=wu, x86=x86)
            needs_overlap = rc2 == 0
            if needs_overlap and what.startswith("undefined behaviour"):
                what = "undefined behaviour only when the threads overlap"
        props = [pid] if (what in ("data race", "deadlock") or needs_overlap) else ["C03"] if what.startswith("result differs") else ["C16"] if what != "panic" else ["C02", "C08"]
        sig = "threads from a cold process:%s" % what
        if sig in seen_sig:
            continue
        seen_sig.add(sig)
        tail = "\n".join(l for l in out1.splitlines() if l.strip())
        head = "\n".join(tail.splitlines()[:6])[:700]
        mini = None
        if pid in props and len(seen_sig) <= 2:
            try:
                mini = minimise_miri_plan(native, base, w, s_, rate, nr, wu, x86, classify_miri(out1))
            except Exception as e:  # minimisation is a convenience: the unminimised workload still replays
                log("[%s] miri: minimisation skipped (%s)" % (pid, e))
        f = dict(kind="miri", base_seed=base, workloads=NW, workload_index=w, explicit_index=True, miri_seed=s_, preemption_rate=rate, rounds=nr, warmup=wu, x86=x86, table=table,
                 ops=(["thread %d: call kind %s" % (ti, c.split(":")[0]) for ti, t in enumerate(mini[0].split("|")) for c in t.split(",")] if mini
                      else [c for c in (plans[w].split(": ", 1)[1].replace(" | ", " ").split(" ") if 0 <= w < len(plans) else [])]),
                 workload=plans[w] if 0 <= w < len(plans) else "",
                 minimised_from=(mini[2] if mini else len(plans[w].split(": ", 1)[1].replace(" | ", " ").split(" ")) if 0 <= w < len(plans) else 1),
                 **(dict(plan=mini[0], plan_expectations=mini[1], minimised_from_calls=mini[2], minimised_to_calls=mini[3], minimisation_interpreter_runs=mini[4]) if mini else {}),
                 violation=dict(properties=props, invariant="T1", signature=sig, at_op=0,
                                detail="Miri scheduler seed %d, preemption rate %s, workload %d (%s backend): %s%s\n%s\n...\n%s" % (
                                    s_, rate, w, "x86" if x86 else "portable", what, "" if needs_overlap is None else " (the same threads one after the other: %s)" % ("pass" if needs_overlap else "fail too"), head, tail[-900:])))
        path = os.path.join(replay_dir, "%s-miri-%d-%d-%d.json" % (pid, base, w, s_))
        json.dump(f, open(path, "w"))
        f["replay"] = path
        if pid not in props:
            others.append(f)
            continue
        kf = open_finding_for(pid, sig)
        if kf:
            known.append((kf, f))
        else:
            violations.append(f)
    return total, time.time() - t0


VALGRIND = ["valgrind", "-q", "--error-exitcode=9", "--partial-loads-ok=no", "--undef-value-errors=no"]


def run_memcheck(pid, spec_mc, tier, sd, replay_dir, results, violations, known):
    """Third pass of S5: the NATIVE SIMD code paths (which Miri cannot run) on exact-size heap blocks under valgrind's
    memcheck - a synthetic CPU that checks every access against the allocation it belongs to at byte granularity: it sees an
    over-read that stays inside mapped memory (and therefore inside what a guard page can see)."""
    import re
    runs = spec_mc[tier]
    if not runs:
        return
    if shutil.which("valgrind") is None:
        results.append(dict(skipped="valgrind is not installed"))
        return
    binary = build("std", "release")
    nproc = NCPU
    per = (runs + nproc - 1) // nproc
    procs = []
    for i in range(nproc):
        a = VALGRIND + [binary, "run", "--scenario", "mem", "--mix", "C16heap", "--seed", str(sd), "--start", str(i * per), "--runs", str(per), "--threads", "1",
                        "--max-ops", "40", "--progress", "--recheck-every", "0"]
        procs.append((i * per, a, subprocess.Popen(a, stdout=subprocess.PIPE, stderr=subprocess.PIPE, text=True)))
    total_ops = 0
    t0 = time.time()
    bad = None
    for start, a, p in procs:
        so, se = p.communicate()
        try:
            out = json.loads(so.strip().splitlines()[-1])
            total_ops += out["ops"]
        except (ValueError, IndexError):
            out = None
        if p.returncode == 9 and bad is None:
            run = None
            for line in se.splitlines():
                m = re.match(r"RUN (\d+)", line)
                if m:
                    run = int(m.group(1))
                elif line.startswith("==") and ("Invalid" in line or "uninitialised" in line):
                    break
            report = "\n".join(l for l in se.splitlines() if l.startswith("=="))[:1500]
            bad = (run, report, start)
        elif p.returncode not in (0, 1, 9) or out is None:
            log(se[-2000:])
            raise HarnessError("memcheck worker failed rc=%s" % p.returncode)
    results.append(dict(tool="valgrind memcheck (--partial-loads-ok=no)", runs=per * nproc, operations=total_ops, ok=bad is None, wall_s=round(time.time() - t0, 1),
                        what="S5 operations with every slice the head or the tail of an exact-size heap block; native x86 SIMD backends on all simulated host levels"))
    log("[%s] memcheck pass: %d runs, %d operations under valgrind: %s" % (pid, per * nproc, total_ops, "ok" if bad is None else "FAILED in run %s" % bad[0]))
    if bad is None:
        return
    run, report, start = bad
    kind = "invalid read" if "Invalid read" in report else "invalid write" if "Invalid write" in report else "memcheck error"
    sig = "memcheck on exact-size heap blocks:%s" % kind
    # the replay is the worker's batch up to the failing run, with the very same arguments: where malloc places a block
    # (its address modulo 16 / 64) depends on everything the process allocated before, and code may depend on that address
    argv = ["run", "--scenario", "mem", "--mix", "C16heap", "--seed", str(sd), "--start", str(start), "--runs", str((run if run is not None else start) - start + 1), "--threads", "1",
            "--max-ops", "40", "--progress", "--recheck-every", "0"]
    f = dict(kind="memcheck", argv=argv, ops=[], minimised_from=1,
             violation=dict(properties=[pid], invariant="M4", signature=sig, at_op=0, detail="run %s: %s" % (run, report)))
    path = os.path.join(replay_dir, "%s-memcheck-%s.json" % (pid, run))
    json.dump(f, open(path, "w"))
    f["replay"] = path
    kf = open_finding_for(pid, sig)
    if kf:
        known.append((kf, f))
    else:
        violations.append(f)


def run_huge(pid, entries, tier, sd, replay_dir, results, violations, known):
    """Single calls with slices of 2 GiB / 4 GiB / more than the whole keystream: lengths no sweep can afford.
    Each runs in its own process (a fault kills only that process; a watchdog catches a call that should have been refused at once)."""
    procs = start_huge(entries, tier)
    collect_huge(pid, procs, replay_dir, results, violations, known)


BLOCKONLY_VARIANTS = {"std": ', features = ["std"]', "nostd": ""}


def run_blockonly(pid, tier, sd, replay_dir, results, violations, known, only=None):
    """C14 in the builds of c2-chacha that leave the cipher front end out (cargo feature rustcrypto_api off; with and without
    std): the worker needs that front end, so these configurations get a program of their own (native, release and dev)."""
    for variant, feats in BLOCKONLY_VARIANTS.items():
        for profile in ("release", "dev"):
            if only and only != (variant, profile):
                continue
            tag = "blockonly%s-%s" % (repo_tag(), variant)
            bdir = os.path.join(VERIF, "build", tag)
            os.makedirs(os.path.join(bdir, ".cargo"), exist_ok=True)
            tmpl = open(os.path.join(VERIF, "blockonly", "Cargo.toml.in")).read()
            manifest = tmpl.replace("@REPO@", REPO).replace("@BO@", os.path.join(VERIF, "blockonly")).replace("@FEATURES@", feats)
            mpath = os.path.join(bdir, "Cargo.toml")
            if not os.path.exists(mpath) or open(mpath).read() != manifest:
                open(mpath, "w").write(manifest)
            if not os.path.exists(os.path.join(bdir, "Cargo.lock")):
                shutil.copy(os.path.join(VERIF, "sim", "Cargo.lock.seed"), os.path.join(bdir, "Cargo.lock"))
            open(os.path.join(bdir, ".cargo", "config.toml"), "w").write("[net]\noffline = true\n")
            env = dict(os.environ, RUSTFLAGS=BASE_RUSTFLAGS, CARGO_NET_OFFLINE="true", CARGO_TARGET_DIR=os.path.join(VERIF, "target", tag))
            cmd = ["cargo", "run", "--offline", "--quiet", "--manifest-path", mpath] + (["--release"] if profile == "release" else []) + ["--", str(sd)]
            t0 = time.time()
            try:
                p = subprocess.run(cmd, env=env, cwd=bdir, stdout=subprocess.PIPE, stderr=subprocess.PIPE, text=True, timeout=900)
                rc, so, se = p.returncode, p.stdout, p.stderr
            except subprocess.TimeoutExpired:
                rc, so, se = "timeout", "", "does not finish within 900 s"
            ok = rc == 0 and so.startswith("OK")
            results.append(dict(build="c2-chacha default-features = false%s, %s profile" % (feats, profile), ok=ok, output=so.strip()[:200], wall_s=round(time.time() - t0, 1)))
            log("[%s] block API without the cipher front end (%s, %s): %s" % (pid, variant, profile, so.strip()[:120] if ok else "FAILED rc=%s" % rc))
            if ok:
                continue
            if rc not in (1, 101, "timeout") and "panicked" not in se:
                log(se[-2000:])
                raise HarnessError("the block-only program does not build (%s, %s)" % (variant, profile))
            what = "does not finish" if rc == "timeout" else "panic" if "panicked" in se else "refill4 differs from four refills"
            sig = "c2-chacha without rustcrypto_api (%s):%s" % (variant, what)
            detail = (so.strip() + " " + "\n".join(l for l in se.splitlines() if "panicked" in l or "overflow" in l))[:600]
            f = dict(kind="blockonly", variant=variant, profile=profile, verif_seed=sd, ops=[], minimised_from=1,
                     violation=dict(properties=[pid], invariant="B3", signature=sig, at_op=0, detail=detail))
            path = os.path.join(replay_dir, "%s-blockonly-%s-%s.json" % (pid, variant, profile))
            json.dump(f, open(path, "w"))
            f["replay"] = path
            kf = open_finding_for(pid, sig)
            if kf:
                known.append((kf, f))
            else:
                violations.append(f)


def start_huge(entries, tier):
    """start the huge single calls (one process each); they run while the legs do"""
    binary = build("std", "release")
    procs = []
    for e in entries:
        if tier not in e.get("tiers", ("quick", "thorough")):
            continue
        a = [binary, "huge", "--what", e["what"], "--len", str(e["len"]), "--pre", str(e.get("pre", 0))]
        if "seek" in e:
            a += ["--seek", str(e["seek"])]
        procs.append((e, a, subprocess.Popen(a, stdout=subprocess.PIPE, stderr=subprocess.PIPE, text=True), time.time()))
    return procs


def collect_huge(pid, procs, replay_dir, results, violations, known):
    for e, a, p, t0 in procs:
        timeout = e.get("timeout", 1800)
        accept_after = e.get("accept_after")  # acceptance probe: still running after that many seconds = accepted
        try:
            if accept_after is not None:
                try:
                    so, se = p.communicate(timeout=max(0.1, accept_after - (time.time() - t0)))
                    rc = p.returncode
                except subprocess.TimeoutExpired:
                    p.kill()
                    so, se = p.communicate()
                    rc = 0
                    so = json.dumps(dict(ok=True, detail="accepted: still working after %.0f s (stopped by the driver)" % accept_after))
            else:
                so, se = p.communicate(timeout=max(1, timeout - (time.time() - t0)))
                rc = p.returncode
        except subprocess.TimeoutExpired:
            p.kill()
            so, se = p.communicate()
            rc = "timeout"
        label = "%s len=%d pre=%d%s" % (e["what"], e["len"], e.get("pre", 0), (" seek=%d" % e["seek"]) if "seek" in e else "")
        out = None
        try:
            out = json.loads(so.strip().splitlines()[-1])
        except (ValueError, IndexError):
            pass
        ok = rc == 0
        results.append(dict(call=label, ok=ok, rc=str(rc), wall_ms=(out or {}).get("wall_ms")))
        log("[%s] huge call %s: %s" % (pid, label, "ok" if ok else "FAILED rc=%s" % rc))
        if ok:
            continue
        if rc == "timeout":
            what = "not refused at once (watchdog)" if e["what"].startswith("exhaust") else "does not finish"
        elif rc == 1:
            what = ("not refused / not atomic" if e["what"].startswith("exhaust") else "refill4 differs from four refills" if e["what"].startswith("rounds")
                    else "a request the keystream can serve is refused" if e["what"].startswith("accept") else "result differs from the same bytes in pieces")
        elif rc == 99 or (isinstance(rc, int) and rc < 0):
            what = "process killed by a memory fault"
        elif rc == 101:
            what = "panic"
        else:
            log(se[-1500:])
            raise HarnessError("huge call %s failed rc=%s" % (label, rc))
        sig = "huge single call:%s:%s" % (e["what"], what)
        f = dict(kind="huge", argv=a[1:], timeout=timeout, accept_after=accept_after, ops=[label], minimised_from=1,
                 violation=dict(properties=[pid], invariant="G1", signature=sig, at_op=0, detail="%s: %s %s" % (label, what, (out or {}).get("detail", "") or se[-300:])))
        import re as _re
        path = os.path.join(replay_dir, "%s-huge-%s.json" % (pid, _re.sub(r"[^A-Za-z0-9_]+", "_", label)))
        json.dump(f, open(path, "w"))
        f["replay"] = path
        kf = open_finding_for(pid, sig)
        if kf:
            known.append((kf, f))
        else:
            violations.append(f)


def run_streams(pid, streams, tier, sd, replay_dir, results, violations, known):
    """Cross counter boundaries for real (no hook): implementation and reference in lock-step, all streams in parallel."""
    procs = []
    for entry in streams:
        (ty, boundary, tiers, with_ref) = entry[:4]
        opt = entry[4] if len(entry) > 4 else {}
        if tier not in tiers:
            continue
        binary = build("std", opt.get("profile", "release"))
        a = [binary, "stream", "--type", ty, "--boundary-bytes", str(boundary), "--seed", str(sd)]
        if not with_ref:
            a.append("--no-ref")
        if opt.get("oneshot"):
            a.append("--oneshot")
        label = ty + (" [one update call]" if opt.get("oneshot") else "") + (" [%s build]" % opt["profile"] if opt.get("profile") else "")
        procs.append((label, boundary, with_ref, subprocess.Popen(a, stdout=subprocess.PIPE, stderr=subprocess.PIPE, text=True), a))
    for ty, boundary, with_ref, p, argv in procs:
        so, se = p.communicate()
        try:
            out = json.loads(so.strip().splitlines()[-1])
        except (ValueError, IndexError):
            if p.returncode == 101 or p.returncode == 99 or p.returncode < 0:  # panic (e.g. an overflow check) or a memory fault while streaming
                out = dict(absorbed=0, digest_mismatches=0, counter_mismatches=0, wall_ms=0, checks=[], panicked=True)
                p.returncode = 1
            else:
                log(se[-2000:])
                raise HarnessError("stream %s failed rc=%s" % (ty, p.returncode))
        results.append(dict(type=ty, boundary_bytes=boundary, absorbed=out["absorbed"], with_reference=with_ref, digest_mismatches=out["digest_mismatches"],
                            counter_mismatches=out["counter_mismatches"], wall_ms=out["wall_ms"], checkpoints=len(out["checks"])))
        log("[%s] stream %s across %d bytes: %d digest mismatches, %d counter mismatches, %.1fs" % (pid, ty, boundary, out["digest_mismatches"], out["counter_mismatches"], out["wall_ms"] / 1000.0))
        if p.returncode == 1:
            sig = "streamed for real:%s:%d bytes:%s" % (ty, boundary, "panic" if out.get("panicked") else "digest" if out["digest_mismatches"] else "counter")
            f = dict(kind="stream", type=ty, boundary_bytes=boundary, verif_seed=sd, with_reference=with_ref, ops=out["checks"], minimised_from=len(out["checks"]), argv=argv[1:],
                     profile=("checked" if "/checked/" in argv[0] else "release"),
                     violation=dict(properties=[pid], invariant="K3", signature=sig, at_op=0,
                                    detail="%s streamed across %d bytes for real: %d of %d digests around the boundary differ from the reference, %d counter readings differ from the true amount" % (ty, boundary, out["digest_mismatches"], len(out["checks"]), out["counter_mismatches"])))
            import re as _re
            path = os.path.join(replay_dir, "%s-stream-%s-%d.json" % (pid, _re.sub(r"[^A-Za-z0-9_]+", "_", ty).strip("_"), boundary))
            json.dump(f, open(path, "w"))
            f["replay"] = path
            kf = open_finding_for(pid, sig)
            if kf:
                known.append((kf, f))
            else:
                violations.append(f)
        elif p.returncode != 0:
            log(se[-2000:])
            raise HarnessError("stream %s failed rc=%s" % (ty, p.returncode))


def read_digests(path):
    d = {}
    for line in open(path):
        r, h = line.split()
        d[int(r)] = h
    return d


def run_cross(pid, cross, tier, sd, replay_dir, absorb, violations, known):
    runs = cross.quick if tier == "quick" else cross.thorough
    builds = cross.builds_quick if tier == "quick" else cross.builds_thorough
    if runs <= 0 or not builds:
        return
    tmp = os.path.join(VERIF, "target", "tmp")
    os.makedirs(tmp, exist_ok=True)
    digs = {}
    bins = {}
    for hb in ["std"] + list(builds):
        binary = build(hb, cross.profile)
        bins[hb] = binary
        dfile = os.path.join(tmp, "digests-%s-%s-%s-%d.txt" % (pid, cross.scenario, hb, os.getpid()))
        args = ["run", "--scenario", cross.scenario, "--mix", cross.mix, "--seed", sd,
                "--max-ops", cross.max_ops, "--profile", cross.profile, "--host-build", hb, "--replay-dir", replay_dir,
                "--states", "1"]
        out, faults = run_sharded(binary, args, 0, runs, NCPU, digests=dfile)
        if out is None or faults:
            raise HarnessError("worker %s on %s failed (%s)" % (cross.name(), hb, faults[:1]))
        absorb(pid, cross.name() + "@" + hb, out)
        digs[hb] = read_digests(dfile)
        os.unlink(dfile)
    ref = digs["std"]
    for hb in builds:
        bad = sorted(r for r in ref if digs[hb].get(r) != ref[r])
        log("[%s] cross %s: std vs %s: %d of %d runs differ" % (pid, cross.name(), hb, len(bad), len(ref)))
        if not bad:
            continue
        r = bad[0]

        def differs(k):
            ds = []
            ref_trace = None
            for b in ("std", hb):
                rc, out, err = run_worker(bins[b], ["trace", "--scenario", cross.scenario, "--mix", cross.mix, "--seed", sd, "--start", r, "--max-ops", k, "--profile", cross.profile, "--host-build", b])
                if out is None:
                    raise HarnessError("trace failed on %s" % b)
                ds.append(out["digest"])
                if ref_trace is None:
                    ref_trace = out  # the reference build's operation list is the replay trace
            return ds[0] != ds[1], ref_trace

        lo, hi = 0, cross.max_ops
        ok, tr = differs(hi)
        if not ok:
            raise HarnessError("cross-build difference of run %d did not reproduce (non-determinism)" % r)
        while lo < hi:  # smallest prefix length whose transcripts differ
            mid = (lo + hi) // 2
            d, t2 = differs(mid)
            if d:
                hi, tr = mid, t2
            else:
                lo = mid + 1
        _, tr = differs(hi)
        sig = "builds disagree:%s:%s" % (cross.scenario, hb)
        tr["kind"] = "crossbuild"
        tr["builds"] = ["std", hb]
        tr["meta"] = dict(profile=cross.profile, host_build="std")
        tr["minimised_from"] = cross.max_ops
        tr["violation"] = dict(properties=[pid], invariant="X3", signature=sig, at_op=len(tr["ops"]),
                               detail="run %d: the transcript of build %s differs from build std after %d operations (+ finalisation); %d of %d runs differ" % (r, hb, len(tr["ops"]), len(bad), len(ref)))
        path = os.path.join(replay_dir, "%s-cross-%s-%s-%d.json" % (pid, cross.scenario, hb, r))
        json.dump(tr, open(path, "w"))
        tr["replay"] = path
        kf = open_finding_for(pid, sig)
        if kf:
            known.append((kf, tr))
        else:
            violations.append(tr)


EXPECTED_PROBES = {
    "chacha_stream": ["fault.exhaustion.buffered_tail", "fault.exhaustion.empty_buffer", "fault.exhaustion.lazy_pending", "fault.exhaustion.wide_path_request", "fault.negative_seek",
                      "fault.seek_exactly_at_limit", "fault.seek_past_limit", "probe.buffered_tail+wide+tail_in_one_apply", "probe.crossed_2^32_block_carry", "probe.crossed_2^64_bytes",
                      "probe.exact_fit_to_end_of_keystream", "probe.last_block_produced", "probe.mid_block_seek_into_block_0", "probe.position_checked_after_failure", "probe.seek_backwards",
                      "probe.seek_backwards_across_2^32_block_carry", "probe.successful_apply_after_a_failure", "probe.zero_len_apply_with_pending_lazy_block"],
    "chacha_block": ["fault.counter_wraps_2^64", "fault.low_word_carry_in_lane_1", "fault.low_word_carry_in_lane_2", "fault.low_word_carry_in_lane_3", "fault.low_word_carry_in_lane_4",
                     "probe.direct_state_without_set_stream_param", "probe.zero_double_rounds"],
    "hash_stream": ["probe.blake_exact_fit_finalisation", "probe.blake_extra_block_finalisation", "probe.blake_padding_only_block", "probe.digest_checked_on_clone_or_cloned_original",
                    "probe.digest_checked_on_reused_instance", "probe.empty_message_finalised", "probe.groestl_le8_bytes_left_padding_block", "probe.jh_aligned_finalisation",
                    "probe.jh_unaligned_finalisation", "probe.multi_block_piece_with_nonempty_buffer", "probe.piece_fills_buffer_exactly", "probe.skein_pending_full_block_at_finalise"],
    "mem": ["fault.placement.End", "fault.placement.Mid", "fault.placement.Start"],
    "counters": ["fault.boundary_crossed_by_update", "fault.boundary_within_2_blocks_of_finalisation", "probe.blocks_compressed_after_jump"],
    "interleave": ["probe.switch_between_kinds_of_instances", "probe.instance_replayed_in_isolation", "probe.instance_replayed_alone_in_a_cold_process"],
}


def finish(pid, tier, sd, spec, wall, total_runs, total_ops, states, counters, notes, samples, legs_out, violations, known, others, harness_error, extra_cov=None):
    printed = set()
    for kf, f in known:
        key = kf.get("signature")
        if key in printed:
            continue
        printed.add(key)
        print("KNOWN-FINDING: property=%s %s" % (pid, kf.get("what", kf.get("signature"))))
    for f in others:
        v = f["violation"]
        print("NOTE: while checking %s: invariant %s of %s failed (%s) replay=%s" % (pid, v["invariant"], ",".join(v["properties"]), v["signature"], f.get("replay")))
    for f in violations:
        v = f["violation"]
        print("VIOLATION property=%s replay=%s" % (pid, f.get("replay")))
        print("  invariant=%s signature=%s" % (v["invariant"], v["signature"]))
        print("  detail: %s" % v["detail"])
        print("  minimised to %d ops from %d" % (len(f.get("ops", [])), f.get("minimised_from", 0)))
    runs_per_hour = int(total_runs / wall * 3600) if wall > 0 else 0
    faults = {k: v for k, v in counters.items() if k.startswith("fault.")}
    probes = {k: v for k, v in counters.items() if k.startswith("probe.")}
    opsk = {k: v for k, v in counters.items() if not (k.startswith("fault.") or k.startswith("probe."))}
    cov = dict(
        evaluations=total_runs,
        distinct_nontrivial=len(states),
        rule=spec["rule"],
        samples=samples[:3] if samples else [],
        operations_executed=total_ops,
        runs_per_hour=runs_per_hour,
        seeds_per_hour=runs_per_hour,
        simulated_time="event count: %d operations (no wall-clock time exists in this code base)" % total_ops,
        faults_fired=faults,
        probes_hit=probes,
        probes_never_hit=sorted(set(p for leg in spec["legs"] + list(spec.get("cross", [])) for p in EXPECTED_PROBES.get(leg.scenario.split("@")[0], [])
                                   if counters.get(p, 0) == 0 and not (p == "probe.digest_checked_on_clone_or_cloned_original" and pid == "C18"))),
        operation_counts=opsk,
        notes=notes,
        legs=legs_out,
        components=spec["real_vs_stub"],
        known_findings_reproduced=[kf.get("signature") for kf, _ in known],
        other_property_observations=[f["violation"]["signature"] for f in others],
        exhaustive=False,
    )
    if extra_cov:
        cov.update(extra_cov)
    ev = dict(property_id=pid, tier=tier, seed=sd, level=spec["level"], coverage=cov, assumptions=spec["assumptions"], wall_s=round(wall, 2), violations=len(violations))
    if harness_error:
        ev["harness_error"] = harness_error
    os.makedirs(os.path.join(VERIF, "evidence"), exist_ok=True)
    with open(os.path.join(VERIF, "evidence", pid + ".json"), "w") as fh:
        json.dump(ev, fh, indent=1, sort_keys=True)
        fh.write("\n")
    if harness_error:
        print("HARNESS-ERROR: %s" % harness_error)
    if violations:
        return 1  # a violation that was found and written stays a violation even if a later layer could not run
    if harness_error:
        return 2
    print("OK property=%s tier=%s runs=%d ops=%d states=%d wall=%.1fs" % (pid, tier, total_runs, total_ops, len(states), wall))
    return 0


def replay(pid, path):
    j = json.load(open(path))
    if j.get("kind") == "batch":
        meta = j.get("meta", {})
        binary = build(meta.get("host_build", "std"), meta.get("profile", "release"))
        b = j["batch"]
        rc, out, err = run_worker(binary, ["run", "--scenario", j["scenario"], "--mix", j["mix"], "--seed", j["verif_seed"], "--start", b["start"], "--runs", b["runs"], "--threads", 1, "--max-ops", b["max_ops"]] + [str(a) for a in j.get("worker_args", [])])
        if out is None:
            print("HARNESS-ERROR: batch replay failed rc=%s" % rc)
            return 2
        same = [f for f in out["found"] if f["violation"]["invariant"] == j["violation"]["invariant"] and pid in f["violation"]["properties"]]
        if same:
            kf = open_finding_for(pid, same[0]["violation"]["signature"])
            if kf:
                print("KNOWN-FINDING: property=%s %s" % (pid, kf.get("what")))
                return 0
            print("VIOLATION property=%s replay=%s" % (pid, path))
            print("  (batch prefix of %d runs) %s" % (b["runs"], same[0]["violation"]["detail"]))
            return 1
        print("OK replay: the batch prefix passes on this tree")
        return 0
    if j.get("kind") == "blockonly":
        res, viol, kn = [], [], []
        run_blockonly(pid, "quick", j.get("verif_seed", 1), os.path.join(VERIF, "replays"), res, viol, kn, only=(j["variant"], j["profile"]))
        if kn:
            print("KNOWN-FINDING: property=%s %s" % (pid, kn[0][0].get("what")))
            return 0
        if viol:
            print("VIOLATION property=%s replay=%s" % (pid, path))
            print("  " + viol[0]["violation"]["detail"][:400])
            return 1
        print("OK replay: the block-only program passes on this tree")
        return 0
    if j.get("kind") == "memcheck":
        p = subprocess.run(VALGRIND + [build("std", "release")] + j["argv"], stdout=subprocess.PIPE, stderr=subprocess.PIPE, text=True)
        if p.returncode == 9:
            kf = open_finding_for(pid, j["violation"]["signature"])
            if kf:
                print("KNOWN-FINDING: property=%s %s" % (pid, kf.get("what")))
                return 0
            print("VIOLATION property=%s replay=%s" % (pid, path))
            print("  " + "\n  ".join(l for l in p.stderr.splitlines() if l.startswith("=="))[:700])
            return 1
        print("OK replay: memcheck is clean for this run on this tree")
        return 0
    if j.get("kind") == "huge":
        a = [build("std", "release")] + j["argv"]
        try:
            p = subprocess.run(a, stdout=subprocess.PIPE, stderr=subprocess.PIPE, text=True, timeout=j.get("accept_after") or j.get("timeout", 600))
            rc = p.returncode
        except subprocess.TimeoutExpired:
            rc = 0 if j.get("accept_after") else "timeout"
        if rc != 0:
            kf = open_finding_for(pid, j["violation"]["signature"])
            if kf:
                print("KNOWN-FINDING: property=%s %s" % (pid, kf.get("what")))
                return 0
            print("VIOLATION property=%s replay=%s" % (pid, path))
            print("  huge call %s: rc=%s" % (j["ops"], rc))
            return 1
        print("OK replay: the huge call behaves on this tree")
        return 0
    if j.get("kind") == "miri_be":
        res, viol, kn = [], [], []
        run_be_layer(pid, {"quick": (j["scale"], j["sections"], j.get("target", BE_TARGET))}, "quick", j.get("verif_seed", 1), os.path.join(VERIF, "replays"), res, viol, kn)
        sig = j["violation"]["signature"]
        if any(f["violation"]["signature"] == sig for kf, f in kn):
            print("KNOWN-FINDING: property=%s %s" % (pid, [kf for kf, f in kn if f["violation"]["signature"] == sig][0].get("what")))
            return 0
        if any(f["violation"]["signature"] == sig for f in viol):
            print("VIOLATION property=%s replay=%s" % (pid, path))
            print("  " + [f for f in viol if f["violation"]["signature"] == sig][0]["violation"]["detail"][:500])
            return 1
        print("OK replay: the foreign host and its native twin agree on this tree")
        return 0
    if j.get("kind") == "miri_mem":
        rc, out = miri_mem_run(j["base_seed"], j["parts"], j["miri_seed"], j["miri_seed"] + 1, x86=j.get("x86", False))
        if rc != 0:
            kf = open_finding_for(pid, j["violation"]["signature"])
            if kf:
                print("KNOWN-FINDING: property=%s %s" % (pid, kf.get("what")))
                return 0
            print("VIOLATION property=%s replay=%s" % (pid, path))
            print("  " + "\n  ".join(l for l in out.splitlines() if "error" in l or "Undefined" in l)[:600])
            return 1
        print("OK replay: the Miri memory pass of seed %d is clean on this tree" % j["miri_seed"])
        return 0
    if j.get("kind") == "miri":
        rc, out = miri_run(j["base_seed"], j["workloads"], j["table"], j["miri_seed"], j["miri_seed"] + 1, j["preemption_rate"],
                           j["workload_index"] if j.get("explicit_index") else None, rounds=j.get("rounds", 1), warmup=j.get("warmup"), x86=j.get("x86", False), plan=j.get("plan"), exp=j.get("plan_expectations"))
        if rc != 0:
            sig = j["violation"]["signature"]
            if pid not in j["violation"]["properties"]:
                print("NOTE: replay fails, but the failure belongs to %s" % j["violation"]["properties"])
                return 0
            kf = open_finding_for(pid, sig)
            if kf:
                print("KNOWN-FINDING: property=%s %s" % (pid, kf.get("what")))
                return 0
            print("VIOLATION property=%s replay=%s" % (pid, path))
            print("  " + classify_miri(out))
            return 1
        print("OK replay: the schedule of Miri seed %d passes on this tree" % j["miri_seed"])
        return 0
    if j.get("kind") == "stream":
        if j.get("argv"):
            a = [build("std", j.get("profile", "release"))] + j["argv"]
        else:
            a = [build("std", "release"), "stream", "--type", j["type"], "--boundary-bytes", str(j["boundary_bytes"]), "--seed", str(j.get("verif_seed", 1))]
            if not j.get("with_reference", True):
                a.append("--no-ref")
        p = subprocess.run(a, stdout=subprocess.PIPE, stderr=subprocess.PIPE, text=True)
        if p.returncode == 1:
            sig = j["violation"]["signature"]
            kf = open_finding_for(pid, sig)
            if kf:
                print("KNOWN-FINDING: property=%s %s" % (pid, kf.get("what")))
                return 0
            print("VIOLATION property=%s replay=%s" % (pid, path))
            print("  " + p.stdout.strip()[-400:])
            return 1
        if p.returncode != 0:
            print("HARNESS-ERROR: stream replay failed rc=%s" % p.returncode)
            return 2
        print("OK replay: streamed digests and counters agree on this tree")
        return 0
    if j.get("kind") == "crossbuild":
        profile = j.get("meta", {}).get("profile", "release")
        ds = []
        for hb in j["builds"]:
            rc, out, err = run_worker(build(hb, profile), ["replay", "--file", path])
            if out is None:
                log(err[-3000:])
                print("HARNESS-ERROR: replay worker failed on %s rc=%s" % (hb, rc))
                return 2
            ds.append((out["digest"], out.get("reproduced")))
        if ds[0] != ds[1]:
            sig = j["violation"]["signature"]
            kf = open_finding_for(pid, sig)
            if kf:
                print("KNOWN-FINDING: property=%s %s" % (pid, kf.get("what")))
                return 0
            print("VIOLATION property=%s replay=%s" % (pid, path))
            print("  builds %s disagree on this trace: %s" % (j["builds"], ds))
            return 1
        print("OK replay: builds %s agree on this trace" % j["builds"])
        return 0
    meta = j.get("meta", {})
    hb = meta.get("host_build", "std")
    profile = meta.get("profile", "release")
    binary = build(hb, profile)
    wargs = [str(a) for a in j.get("worker_args", [])]
    pr = subprocess.run([binary, "replay", "--file", path] + wargs, stdout=subprocess.PIPE, stderr=subprocess.PIPE, text=True)
    if "FAULT sig=" in pr.stdout:
        sig = j.get("violation", {}).get("signature", "")
        kf = open_finding_for(pid, sig)
        if kf:
            print("KNOWN-FINDING: property=%s %s" % (pid, kf.get("what")))
            return 0
        print("VIOLATION property=%s replay=%s" % (pid, path))
        print("  " + pr.stdout.strip().splitlines()[-1])
        return 1
    rc, out, err = run_worker(binary, ["replay", "--file", path] + wargs)
    if out is None:
        log(err[-3000:])
        print("HARNESS-ERROR: replay worker failed rc=%s" % rc)
        return 2
    if out.get("reproduced"):
        v = out["violation"]
        if pid in v["properties"] or pid == "any":
            kf = open_finding_for(pid, v["signature"])
            if kf:
                print("KNOWN-FINDING: property=%s %s" % (pid, kf.get("what")))
                return 0
            print("VIOLATION property=%s replay=%s" % (pid, path))
            print("  invariant=%s signature=%s" % (v["invariant"], v["signature"]))
            print("  detail: %s" % v["detail"])
            return 1
        print("NOTE: replay fails invariant %s of %s, not of %s" % (v["invariant"], v["properties"], pid))
        return 0
    print("OK replay does not violate anything on this tree")
    return 0


def setup():
    t0 = time.time()
    needed = set()
    for pid, spec in PROPS.items():
        for leg in spec["legs"]:
            needed.add((leg.hb, leg.profile))
        for c in spec.get("cross", []):
            needed.add(("std", c.profile))
            for hb in c.builds_thorough:
                needed.add((hb, c.profile))
    for hb, profile in sorted(needed):
        binary = build(hb, profile)
        rc, out, err = run_worker(binary, ["selftest", "--repo", REPO])
        if rc != 0:
            log(err)
            print("HARNESS-ERROR: reference-model self-test failed in %s/%s" % (hb, profile))
            return 2
    # interpreters: Miri sysroots (x86-64 host target and the five foreign targets) and the small Miri binaries
    try:
        miri_native()
        rc, out = miri_mem_run(1, 64, 1, 2, part=0)
        if rc != 0:
            log(out[-2000:])
            print("HARNESS-ERROR: Miri could not run the memory-pass binary")
            return 2
        rc_le, out_le, err_le = be_run(1, 1, "cipher", False)
        rc_be, out_be, err_be = be_run(1, 1, "cipher", True)
        for tgt in FOREIGN_TARGETS[1:]:
            rc_32, out_32, err_32 = be_run(1, 1, "cipher", True, tgt)
            if rc_32 != 0:
                log(err_32[-1500:])
                print("HARNESS-ERROR: the %s (Miri, %s) could not be started" % (HOST_NAME[tgt], tgt))
                return 2
        if rc_le != 0 or rc_be != 0:
            log(err_le[-1500:] + err_be[-1500:])
            print("HARNESS-ERROR: the big-endian host (Miri, %s) could not be started" % BE_TARGET)
            return 2
        # the simulated CPU generations (overlay build of ppv-lite86, one interpreter build per generation) and the x86 variant of
        # the thread / memory workloads
        from concurrent.futures import ThreadPoolExecutor
        with ThreadPoolExecutor(max_workers=len(CPU_LEVELS)) as ex:
            rcs = list(ex.map(lambda c_: (c_, be_run(1, 1, "jh1", True, c_)), CPU_LEVELS))
        for c_, (rc_c, out_c, err_c) in rcs:
            if rc_c != 0:
                log(err_c[-1500:])
                print("HARNESS-ERROR: the %s (Miri) could not be started" % HOST_NAME[c_])
                return 2
        rc, out = miri_mem_run(1, 64, 1, 2, part=0, x86=True)
        if rc != 0:
            log(out[-2000:])
            print("HARNESS-ERROR: Miri could not run the memory-pass binary on the x86 backend")
            return 2
    except HarnessError as e:
        print("HARNESS-ERROR: %s" % e)
        return 2
    print("setup ok (%.0fs)" % (time.time() - t0))
    return 0


def selftest_determinism():
    """Every scenario: 2000 seeds, twice, in separate processes, at 1 and at 16 workers, in two build profiles;
    the per-seed event-log digests must be identical. Miri: 4 scheduler seeds run twice must agree on pass/fail."""
    tmp = os.path.join(VERIF, "target", "tmp")
    os.makedirs(tmp, exist_ok=True)
    scen = [("chacha_stream", "C02", 48), ("chacha_stream", "C11", 48), ("chacha_block", "C14", 32), ("chacha_block", "C15", 32), ("hash_stream", "C08", 30),
            ("hash_stream@hosts", "C03", 30), ("chacha_stream@hosts", "C02", 48), ("mem", "C16", 40), ("mem", "C16enum", 192), ("counters", "C17", 16), ("interleave", "C18", 60)]
    bad = 0
    total = 0
    for profile in ("release", "checked"):
        binary = build("std", profile)
        for (sc, mix, mo) in scen:
            ref = None
            for (threads, rep) in ((1, 0), (16, 0), (16, 1), (5, 0)):
                df = os.path.join(tmp, "det-%d.txt" % os.getpid())
                rc, out, err = run_worker(binary, ["run", "--scenario", sc, "--mix", mix, "--seed", seed(), "--runs", 2000, "--threads", threads, "--max-ops", mo, "--digests", df, "--recheck-every", 7])
                if out is None:
                    log(err[-2000:])
                    print("HARNESS-ERROR: worker failed in determinism self-test (%s)" % sc)
                    return 2
                d = read_digests(df)
                os.unlink(df)
                total += len(d)
                if out["nondeterministic_seeds"]:
                    bad += 1
                    print("NONDETERMINISTIC (in-process recheck): %s/%s %s" % (sc, mix, out["nondeterministic_seeds"][:3]))
                if ref is None:
                    ref = d
                elif d != ref:
                    diff = [r for r in ref if d.get(r) != ref[r]]
                    bad += 1
                    print("NONDETERMINISTIC: %s/%s/%s at %d workers: %d of %d seeds differ, first run index %s" % (sc, mix, profile, threads, len(diff), len(ref), diff[:3]))
            log("[determinism] %s/%s/%s: 4 executions x 2000 seeds compared" % (sc, mix, profile))
    native = miri_native()
    exp = subprocess.run([native, "expected", "7", str(NW)], stdout=subprocess.PIPE, text=True).stdout.strip()
    from concurrent.futures import ThreadPoolExecutor
    mjobs = [(w, 100 + w, rate, 3 if w >= 74 else 1) for w in (0, 7, 21, 26, 40, 58, 81, 95, 100) for rate in ("0.05", "0.4")]
    with ThreadPoolExecutor(max_workers=NCPU) as ex:
        r1 = list(ex.map(lambda j: miri_run(7, NW, exp, j[1], j[1] + 1, j[2], j[0], rounds=j[3]), mjobs))
        r2 = list(ex.map(lambda j: miri_run(7, NW, exp, j[1], j[1] + 1, j[2], j[0], rounds=j[3]), mjobs))
    orders = set()
    for j, a, b_ in zip(mjobs, r1, r2):
        o1 = [l for l in a[1].splitlines() if l.startswith("ORDER") or l.startswith("WORKLOAD")]
        o2 = [l for l in b_[1].splitlines() if l.startswith("ORDER") or l.startswith("WORKLOAD")]
        total += 1
        orders.add(tuple(o1))
        if a[0] != b_[0] or o1 != o2 or len(o1) != 2:
            bad += 1
            print("NONDETERMINISTIC: Miri workload %d seed %d rate %s: two executions differ (%s / %s)" % (j[0], j[1], j[2], o1, o2))
    log("[determinism] Miri: %d (workload, seed, rate) triples executed twice: completion orders identical; %d distinct orders" % (len(mjobs), len(orders)))
    print("determinism self-test: %d digests compared, %d divergences" % (total, bad))
    return 0 if bad == 0 else 2


def main(argv):
    if not argv:
        print(__doc__)
        return 2
    try:
        if argv[0] == "setup":
            return setup()
        if argv[0] == "selftest-determinism":
            return selftest_determinism()
        pid = argv[0]
        if pid not in PROPS and pid != "any":
            print("unknown property %s (claimed: %s)" % (pid, " ".join(sorted(PROPS))))
            return 2
        if len(argv) >= 3 and argv[1] == "--replay":
            return replay(pid, argv[2])
        tier = os.environ.get("VERIF_TIER") or (argv[1] if len(argv) > 1 else "quick")
        if tier not in ("quick", "thorough"):
            tier = "quick"
        return run_property(pid, tier)
    except HarnessError as e:
        print("HARNESS-ERROR: %s" % e)
        return 2
